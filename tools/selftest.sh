#!/bin/bash
# Must-fail / must-stay-green self-test of the verifier (parallel).
# usage: tools/selftest.sh [property ...]     (default: all mutants)
# Each mutants/<prop>/<name>.patch has a header line "# expect: <obligation substring>|GREEN" and
# optionally "# props: C04 C05" (properties whose check is run; default: the directory name).
export GOFLAGS=-mod=mod GOPROXY=off GOSUMDB=off GOTOOLCHAIN=local
HERE=$(cd "$(dirname "$0")/.." && pwd)
BASE=${VERIF_SCRATCH:-/var/tmp/ruxvc.selftest.$$}
JOBS=${SELFTEST_JOBS:-4}
mkdir -p "$BASE"
one() {
  p=$1; prop=$(basename "$(dirname "$p")"); name=$(basename "$p" .patch)
  SCR="$BASE/$prop.$name"
  exp=$(sed -n 's/^# expect: //p' "$p" | head -1)
  props=$(sed -n 's/^# props: //p' "$p" | head -1); props=${props:-$prop}
  rm -rf "$SCR"; mkdir -p "$SCR/v"
  rsync -a --exclude .git /repo/ "$SCR/repo/"
  cp "$HERE/known_findings.json" "$SCR/v/"; cp -r "$HERE/bounded" "$SCR/v/bounded"
  if ! (cd "$SCR/repo" && patch -p1 --quiet < "$p"); then echo "SELFTEST-ERROR cannot apply $p"; rm -rf "$SCR"; return; fi
  if ! (cd "$SCR/repo" && go build ./... ) >/dev/null 2>&1; then echo "SELFTEST-ERROR mutant does not compile: $p"; rm -rf "$SCR"; return; fi
  for q in $props; do
    out=$("$HERE/bin/ruxvc" -repo "$SCR/repo" -verif "$SCR/v" -prop "$q" -noreplay -noretry -j 6 2>&1)
    if [ "$exp" = GREEN ]; then
      if echo "$out" | grep -q '^VIOLATION'; then echo "SELFTEST-FAIL (false alarm) $q $name: $(echo "$out" | grep '^VIOLATION' | head -2)"; else echo "ok   green     $q $name"; fi
    else
      if echo "$out" | grep '^VIOLATION' | grep -q -- "$exp"; then echo "ok   caught    $q $name -> $exp"; else echo "SELFTEST-FAIL (missed) $q $name expected $exp; got: $(echo "$out" | grep -E '^(VIOLATION|TOOL)' | head -3)"; fi
    fi
  done
  rm -rf "$SCR"
}
export -f one; export HERE BASE
list=()
for p in "$HERE"/mutants/*/*.patch; do
  prop=$(basename "$(dirname "$p")")
  if [ $# -gt 0 ]; then case " $* " in *" $prop "*) ;; *) continue;; esac; fi
  list+=("$p")
done
printf '%s\n' "${list[@]}" | xargs -P "$JOBS" -I{} bash -c 'one {}' > "$BASE/out.txt" 2>&1
sort "$BASE/out.txt"
n=$(grep -c . "$BASE/out.txt"); f=$(grep -c 'SELFTEST-' "$BASE/out.txt")
rm -rf "$BASE"
echo "selftest: $n results, failures=$f"
[ "$f" = 0 ]
