#!/bin/bash
# Must-fail / must-stay-green self-test of the verifier.
# usage: tools/selftest.sh [property ...]     (default: all mutants)
# Each mutants/<prop>/<name>.patch has a header line "# expect: <obligation substring>|GREEN" and
# optionally "# props: C04 C05" (properties whose check is run; default: the directory name).
export GOFLAGS=-mod=mod GOPROXY=off GOSUMDB=off GOTOOLCHAIN=local
HERE=$(cd "$(dirname "$0")/.." && pwd)
SCR=${VERIF_SCRATCH:-/var/tmp/ruxvc.selftest.$$}
fail=0; n=0
for p in "$HERE"/mutants/*/*.patch; do
  prop=$(basename "$(dirname "$p")")
  if [ $# -gt 0 ]; then case " $* " in *" $prop "*) ;; *) continue;; esac; fi
  exp=$(sed -n 's/^# expect: //p' "$p" | head -1)
  props=$(sed -n 's/^# props: //p' "$p" | head -1); props=${props:-$prop}
  rm -rf "$SCR"; mkdir -p "$SCR/v"
  rsync -a --exclude .git /repo/ "$SCR/repo/"
  cp "$HERE/known_findings.json" "$SCR/v/"
  if ! (cd "$SCR/repo" && patch -p1 --quiet < "$p"); then echo "SELFTEST-ERROR cannot apply $p"; fail=1; continue; fi
  if ! (cd "$SCR/repo" && go build ./... ) >/dev/null 2>&1; then echo "SELFTEST-ERROR mutant does not compile: $p"; fail=1; continue; fi
  for q in $props; do
    n=$((n+1))
    out=$("$HERE/bin/ruxvc" -repo "$SCR/repo" -verif "$SCR/v" -prop "$q" -noreplay 2>&1)
    if [ "$exp" = GREEN ]; then
      if echo "$out" | grep -q '^VIOLATION'; then echo "SELFTEST-FAIL (false alarm) $q $(basename $p): $(echo "$out" | grep '^VIOLATION' | head -2)"; fail=1; else echo "ok   green     $q $(basename $p)"; fi
    else
      if echo "$out" | grep '^VIOLATION' | grep -q -- "$exp"; then echo "ok   caught    $q $(basename $p) -> $exp"; else echo "SELFTEST-FAIL (missed) $q $(basename $p) expected $exp; got: $(echo "$out" | grep -E '^(VIOLATION|TOOL)' | head -3)"; fail=1; fi
    fi
  done
done
rm -rf "$SCR"
echo "selftest: $n runs, fail=$fail"
exit $fail
