#!/bin/bash
# tools/seedtest.sh <seeddir> [props...]   seeddir has patch.diff demo_test.go meta.json
# 1. confirms the seed (compiles, existing tests pass, demo fails with / passes without the patch)
# 2. runs the given property checks (default: property in meta.json) against the patched tree
export GOFLAGS=-mod=mod GOPROXY=off GOSUMDB=off GOTOOLCHAIN=local
HERE=$(cd "$(dirname "$0")/.." && pwd)
D=$1; shift
SCR=/var/tmp/seedtest.$$; rm -rf $SCR; mkdir -p $SCR/v
rsync -a --exclude .git /repo/ $SCR/repo/
cp $HERE/known_findings.json $SCR/v/; cp -r $HERE/bounded $SCR/v/bounded
prop=$(python3 -c "import json;print(json.load(open('$D/meta.json'))['property'])")
props=${*:-$prop}
pkgdir=$(python3 -c "import json;print(json.load(open('$D/meta.json')).get('demo_dir','.'))")
cd $SCR/repo
cp $D/demo_test.go $pkgdir/zz_seed_demo_test.go
base=$(go test -vet=off -count=1 -run 'TestSeedDemo$' ./$pkgdir 2>&1 | tail -1)
if ! patch -p1 --quiet < $D/patch.diff; then echo "SEED cannot apply"; rm -rf $SCR; exit 2; fi
withp=$(go test -vet=off -count=1 -run 'TestSeedDemo$' ./$pkgdir 2>&1 | tail -1)
rm $pkgdir/zz_seed_demo_test.go
suite=$(go test -vet=off -count=1 . ./pkg/binding ./pkg/handlers 2>&1 | grep -c '^ok')
echo "SEED $D: demo-without-patch=[$base] demo-with-patch=[$withp] suite-ok-packages=$suite/3"
for q in $props; do
  out=$($HERE/bin/ruxvc -repo $SCR/repo -verif $SCR/v -prop $q 2>&1)
  echo "$out" | grep -E '^(VIOLATION|TOOL-ERROR|property)' | sed "s#$SCR/v#.#" | cut -c1-260 | head -8
done
rm -rf $SCR
