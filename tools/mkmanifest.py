#!/usr/bin/env python3
"""Regenerates /verif/MANIFEST.json from the table below (kept by hand)."""
import json, os
HERE = os.path.dirname(os.path.dirname(os.path.abspath(__file__)))

TRUST = ("Trusted: go/types+go/ssa (x/tools v0.29.0) and ruxvc's SSA semantics; z3 4.8.12 / z3 5.1.0 / cvc5 1.0.3 "
         "(unsat answers); assumed extern contracts listed per run in evidence.coverage.trusted_base; int is mathematical. ")

CLAIMS = {
 "C01": dict(
   text="Contract proof of the index and lookup logic, unbounded in tables and paths: match is proved (two loop invariants, existential first-match clauses) to return the static entry when one exists, else the FIRST route of the regular list for METHOD+first-segment that passes the prefix filter and whose regexp accepts, else the first accepting route of the irregular list, and nil only if none qualifies; appendRoute is proved to file a route in exactly its tier, at the end of its list, keeping every earlier route in place (so list order is registration order), with the static table keyed by METHOD+path; parseParamRoute is proved to return, as the key of the preferred tier, exactly the complete literal first segment of the pattern (after {name:regex} has been reduced to {name}): non-empty result <=> the pattern starts with /segment/ where the segment has no slash and ends before the first { and [, and every such segment equals the result (quantified over all strings). The inverted-test defect that dropped earlier irregular routes is fixed (canary).",
   note=TRUST + "regexp is an uninterpreted model (reAcc/reSub/nsub): the translation pattern -> regexp in parseParamRoute/quotePointChar/checkAndParseOptional is string assembly handed to regexp.MustCompile and is NOT covered deductively (bounded stand-in bounded/patsem, labelled bounded); the first-segment rule is proved relative to the variable-stripped pattern, which strings.Replacer produces (uninterpreted), and for patterns without variables only in the forward direction; the selection among several qualifying routes end to end is run by the bounded stand-in bounded/patprio (labelled bounded). R-reg: tables are frozen before the first request.",
   design="6/C01"),
 "C02": dict(
   text="Contract proof: matchRegex is proved (loop invariant, exact handling of repeated names: last occurrence wins) to return parameters that are positionally the submatches of the route's regexp - name i <-> group i+1 - for exactly the route's variable names, given the group-count invariant routeWF that parseParamRoute establishes by a registration-time check (fix for the capturing-group defect); static hits carry no parameters; a cache hit returns the parameter map stored with the entry, which cacheDynamicRoute proves to be the map of the original match.",
   note=TRUST + "Which substring each group captures is regexp semantics (assumed model). Value-level clauses (substitution reproduces the path) are in the bounded stand-in.",
   design="6/C02"),
 "C06": dict(
   text="Contract proof of the resolution order: QuickMatch is proved against the table predicate tm (cache-independent, via the invariant that cache entries only exist for matching (method,path) pairs) to resolve direct match, then HEAD->GET, then the METHOD/* fallback route when enabled, then method-not-allowed with the allowed list being exactly the other supported methods whose tables match (every map iteration order covered by a bijection model of range), else not found; with InterceptAll the lookup path is the normalised intercept path (defect fixed). handleHTTPRequest is proved to install the NotAllowed/NotFound chains (or the internal defaults) accordingly.",
   note=TRUST + "internal405Handler/internal404Handler bodies (Allow header sorting, status) are not under contract: bounded stand-in bounded/fallback (labelled bounded) runs the whole decision list through ServeHTTP.",
   design="6/C06"),
 "C07": dict(
   text="Contract proof of the cache discipline: a cache hit returns exactly the stored view; a dynamic match stores, under the key METHOD+path it is looked up with, a copy of the matched route with the parameters of that match (cacheDynamicRoute, copyWithParams); the invariant cacheNN (every entry belongs to a (method,path) the dynamic tables match; key decomposition proved unique by a string lemma) makes 'a route is found' independent of the cache content, for any capacity; the container keeps all other entries' values (C14); the dispatcher (handleHTTPRequest) is proved not to write any parameter map that existed when the request arrived, so cached parameters are not changed by serving them.",
   note=TRUST + "The full equality 'cached result == uncached result for every history' composes these clauses with R-reg (frozen tables) by a meta-argument; route identity differs (the cache holds copies), as documented.",
   design="6/C07"),
 "C15": dict(
   text="Contract proof of the name index: appendRoute stores a named route under its name and leaves every other name untouched, NamedTo does the same for the trimmed name, GetRoute returns the index entry (so the most recently registered route of a name wins). Contract proof of the URL builder: Route.ToURL builds on the route's own path and routes its arguments (the caller's builder is the one built on; an M argument or the key/value pairs become the parameter map; other shapes and odd counts panic); BuildRequestURL.Build, for every parameter map and every iteration order of its two map ranges (three loop invariants), adds every key without braces to the query values (as the last value of that key), stores every key with braces as a parameter, keeps all other parameters, maps every variable occurrence found in the path to its brace name, and hands the replacer exactly one pair per occurrence that replaces it by the string form of the parameter stored under that name, in a single pass.",
   note=TRUST + "What strings.Replacer, url.Values.Encode, goutil.String and the regexp produce is outside the contracts (uninterpreted), so that the built path, requested, is dispatched back to the route with the same values is not decided deductively: bounded stand-in bounded/urlround (labelled bounded); one known finding (trailing white space of the last value is trimmed by the lookup normalisation). Build and ToURL are allowed to panic (nil maps of a caller-supplied builder).",
   design="6/C15"),
 "C16": dict(
   text="Contract proof of the registration callback of Resource for EVERY method set of the controller (reflection modelled as uninterpreted functions of the controller value, so the method set is arbitrary) and every iteration order of the action table (bijection model of map range): a loop invariant over the log of accepted routes (ghost regCount/regAt, appended by appendRoute) proves that each implemented action is registered once under the name <res>_<action> with its own method value as handler, the documented path shape, exactly the methods of its RESTFulActions row and - besides the group middleware - only the handlers Uses() lists for that action, and that nothing else is registered; AddNamed, NewNamedRoute, formatMethods, AddRoute and appendRoute carry the clauses; Resource itself is proved to reject a non-pointer or non-struct controller.",
   note=TRUST + "Assumed: reflect (rv.* uninterpreted model), the default content of the exported RESTFulActions table and action-name variables (precondition restTable), distinctness of the seven route names (namesOK, a fact about TrimSpace/ToLower/concatenation), and that Group runs the callback in the state Resource prepared (the callback's preconditions are not linked to Group's functype contract). The final paths are terms over the uninterpreted normaliser fp; that GET /res/create is served by create (static tier before dynamic, C01) and the end-to-end table are additionally run by the bounded stand-in bounded/resttable (all 128 method sets x with/without Uses x 2 base paths x 77 probes; labelled bounded).",
   design="0.7"),
 "C17": dict(
   text="Contract proof of delegation: the handlers registered by StaticDir/StaticFS/StaticFiles/StaticFile are proved to do nothing but pass the request once to the file server bound at registration (StaticFiles after setting the path to the matched file parameter) or to serve the one configured file; no other file API is called (any would be an uncontracted external effect) and no file name is built from the request.",
   note=TRUST + "Confinement to the root itself is enforced inside net/http (http.Dir, FileServer, ServeFile) and the extension filter by the regexp of the registered pattern: not decided deductively, bounded stand-in bounded/staticfs (labelled bounded).",
   design="6/C17"),
 "C18": dict(
   text="Contract proof of the source-selection table of binding.Auto (query for methods without body; otherwise urlencoded form, multipart, JSON, XML by the Content-Type markers, error and no decoder call for any other type, with a proved lemma placing the documented media types in the right rows), that every successful bind went through the validator when one is enabled, that a decoder error is never swallowed (ghost decodedOK: a nil result implies the codec reported success) and that no rux code panics.",
   note=TRUST + "encoding/json, encoding/xml, formam and gookit/validate are assumed contracts: encode-then-bind equality and decoder robustness on malformed bytes are statements about them and are not decided.",
   design="6/C18"),
 "C19": dict(
   text="Contract proof on top of the writer contracts: every pkg/render renderer sets its documented Content-Type only if none is present (never overrides), frames the body as documented (JSONP callback(...); XML header) and returns encoder errors; render.Auto serves the FIRST supported Accept type (loop invariant; the empty-case defect for application/xml is fixed); Context.Blob/Text/HTML/HTMLString/JSONBytes/Respond/ShouldRender/JSON/XML/JSONP/Stream/Redirect/NoContent/HTTPError produce the given status (pending or sent), the documented Content-Type and record/return render failures instead of panicking.",
   note=TRUST + "Encoders are assumed (they write through the given writer; unencodable values yield errors). 'The body decodes back to the value' is not decided.",
   design="6/C19"),
 "C20": dict(
   text="Contract proof: the HTTPBasicAuth closure leaves the request un-aborted iff credentials are well-formed and (no accounts or password matches), otherwise aborts with 401+challenge or 403; the method-override closure calls the downstream handler exactly once, rewriting the method only for POST and only to PUT/PATCH/DELETE and recording the original; WrapHTTPHandlers composes so that the first listed wrapper is outermost (loop invariant over an uninterpreted apply); WrapHTTPHandler delegates exactly once and leaves the chain state alone.",
   note=TRUST + "net/http request/handler functions are assumed contracts (BasicAuth, FormValue, Header.Get, WithContext).",
   design="6/C20"),

 "C04": dict(
   text="Contract proof of the chain protocol: Context.Next is proved, against a rely/guarantee contract on HandlerFunc values, to start handlers in chain order, each at most once and none skipped, whatever each handler does with Next() (ghost counter started(c), exact int8 cursor arithmetic, loop invariant, no bound on the chain other than the documented 63); combineHandlers, Route.Use and Router.Use are proved to build the lists in the documented order, and Add, the nine verb helpers (GET ... CONNECT) and Any to register one route for exactly the given method(s) whose chain is the group middleware in effect followed by the route's own middleware.",
   note=TRUST + "Relies on R-handler/R-cursor (user handlers act only through the Context API and do not drive the int8 cursor to 127). The composition 'every handler is a composition of API calls' is a meta-argument.",
   design="6/C04"),
 "C05": dict(
   text="Contract proof: Abort/AbortThen/AbortWithStatus set the cursor to the sentinel and the ghost flag aborted(c); Next is proved not to start any handler when the cursor is at or past the end of the chain (so nothing starts after an abort, whoever calls Next again), abort is sticky, IsAborted is true after an abort; AbortWithStatus determines the pending/sent status unless already committed. The converse half of IsAborted (true only after an abort) is a known finding (cursor drift in chains of >= 33 nesting handlers).",
   note=TRUST + "Chains within the documented limit (len <= 63) as a precondition; rely on handler behaviour as for C04.",
   design="6/C05"),
 "C10": dict(
   text="Contract proof: Context.Init/Reset and responseWriter.reset are proved, from a completely unconstrained (havocked) previous context state, to establish the pristine state (cursor -1, no data/params/errors/handlers, Resp rebound to the context's own writer, request and writer bound to the new ones, status 0, length -1).",
   note=TRUST + "sync.Pool is assumed to hand out contexts no other goroutine holds.",
   design="6/C10"),
 "C11": dict(
   text="Contract proof in the SMT theory of strings: formatPath and simpleFmtPath are total (no panic for any byte string, both StrictLastSlash settings) and always return a path in normal form (one leading slash, no second slash, no trailing slash unless strict); the whitespace-only input that used to panic is fixed and kept as a canary mutant.",
   note=TRUST + "Whole-string behaviour (a route registered as P is reached by exactly the request paths with the same normal form) is run by the bounded stand-in bounded/normeq (labelled bounded); one known finding (double normalisation inside groups, white space next to a dropped slash). strings.TrimSpace/TrimLeft/TrimRight are assumed contracts (exact for ASCII white space, sound for multi-byte white space). The whole-string equations relating registration and lookup normalisation (L1/L2 in DESIGN.md) are not decided deductively.",
   design="6/C11"),
 "C13": dict(
   text="Contract proof of the registration-side validators: goodInfo accepts only routes with a handler and with every method exactly one of the nine supported names (the prefix-match defect is fixed), Route.Use rejects chains of 63 or more handlers, and formatPath never panics on any input string.",
   note=TRUST + "parseParamRoute / regexp-level validation is not covered yet.",
   design="6/C13"),
 "C14": dict(
   text="Contract proof of the LRU container: for an arbitrary cache state satisfying the representation invariant (so for every Set/Get/Has/Delete/Len history), every operation preserves the invariant, never exceeds the capacity (0 and 1 included), makes the key just stored or read the most recent, evicts exactly the least recently used key when full, replaces the value of an existing key, and deletes only the given key; whole-view postconditions, so corrupting other keys fails.",
   note=TRUST + "container/list is an assumed rank model (ghost membership, recency stamps, back witness); sync.RWMutex a ghost lock state.",
   design="6/C14"),
 "C03": dict(
   text="Contract proof of non-interference by ownership (write frames), not an exploration of schedules: handleHTTPRequest and ServeHTTP are proved to write only fields of the request's own pooled Context, memory allocated during the request, the underlying writer's log and route-cache state; every mutation of the cache list is proved to happen under the exclusive lock (ghost lock state); router tables, middleware lists and routes are only read. Four genuine violations found this way (shared backing arrays, lazy router-field writes, list mutation under RLock) are fixed and kept as canaries.",
   note=TRUST + "No interleaving is enumerated and no race detector is used. Assumed: R-pool (sync.Pool hands out exclusively owned contexts), R-handler, the Go memory model, sync.RWMutex. The match/QuickMatch summary used by the dispatcher is an assumed contract until the table contracts replace it.",
   design="6/C03"),
 "C09": dict(
   text="Contract proof with exceptional control flow (defer/recover modelled in the VC generator): with an OnPanic hook a handler panic does not escape handleHTTPRequest/ServeHTTP unless the hook itself panics, the hook is called at most once with the recovered value stored under the documented key, and the response is committed afterwards; without a hook the function may panic (propagation). The frame proof shows no router field is written on any path, including the exceptional ones.",
   note=TRUST + "Handlers and hooks are rely/guarantee contracts (they may panic at any point; their exceptional postconditions are assumed). PanicsHandler middleware in pkg/handlers is not covered.",
   design="6/C09"),
 "C12": dict(
   text="Contract proof: Group is proved, against a rely contract on the registration callback, to put prefix+formatPath(prefix) and the outer-to-inner middleware list in effect during the callback and to restore exactly the previous prefix, group list (header and elements) and global list afterwards, for arbitrary nesting depth (rely/guarantee closure, not unrolling); Router.Use is proved to extend only the list it documents.",
   note=TRUST + "R-reg: callbacks register routes only through the exported API and do not mutate routes registered earlier; the middleware slices passed to Group do not alias the router's own lists (precondition).",
   design="6/C12"),
 "C08": dict(
   text="Contract proof: every method of responseWriter and every status/length/write method of Context is proved, for an arbitrary pre-state satisfying the writer invariant (so for every operation history), to preserve 'exactly one WriteHeader on the underlying writer, before any body byte or flush, carrying the last positive status recorded before the commit (200 if none)', with the body log and Length() growing by exactly the bytes the underlying writer accepted (short writes and errors included).",
   note=TRUST + "The underlying http.ResponseWriter/Flusher is modelled by a ghost call log (assumed extern contracts). Hijack is excluded. The induction over operation sequences (invariant + per-operation postconditions) is the standard meta-argument, not an SMT query.",
   design="6/C08"),
}

PENDING = "deductive check not built yet in this session (work in progress; see DESIGN.md section 6)"

def main():
    props = [json.loads(l) for l in open(os.path.join(HERE, "properties.jsonl"))]
    checks, na = [], []
    for p in props:
        pid = p["id"]
        if pid in CLAIMS:
            c = CLAIMS[pid]
            checks.append({
              "property_id": pid,
              "quick_cmd": f"./check {pid} quick",
              "thorough_cmd": f"./check {pid} thorough",
              "evidence_file": f"/verif/evidence/{pid}.json",
              "replay_cmd_template": f"./check {pid} --replay {{path}}",
              "engine": "ruxvc",
              "level_claimed": {"category": "proof", "text": c["text"], "design_ref": "DESIGN.md section " + c["design"]},
              "level_note": c["note"],
              "technique": c.get("technique", "contract-based deductive verification: weakest-precondition style VCs generated from go/ssa of the real code against //@ contracts, discharged by z3/cvc5"),
            })
        else:
            na.append({"property_id": pid, "reason": NA.get(pid, PENDING)})
    m = {
      "version": 1,
      "setup_cmd": "cd /verif/ruxvc && GOFLAGS=-mod=mod GOPROXY=off GOSUMDB=off GOTOOLCHAIN=local go build -o /verif/bin/ruxvc .",
      "hooks": {
        "guard": "verif",
        "enable": "go build -tags verif (the tag only adds comment-only contract files zz_verif_contracts.go)",
        "baseline_off_cmd": "cd /repo && GOFLAGS=-mod=mod GOPROXY=off GOSUMDB=off go test -json -vet=off -count=1 -timeout 25m ./...",
        "source_commits": SOURCE_COMMITS,
        "add_only": True,
      },
      "engines": [{"name": "ruxvc", "path": "/verif/ruxvc", "serves_properties": sorted(CLAIMS), "kind_free_text": "verification-condition generator over go/ssa of the real code with Gobra-style //@ contracts; obligations discharged by z3 4.8.12, z3 5.1.0 and cvc5 1.0.3 (raced)"}],
      "checks": checks,
      "not_applicable": na,
      "notes": "Contracts live in /repo/**/zz_verif_contracts.go (build tag verif, comments only). Known findings and fixed defects: /verif/known_findings.json. See DESIGN.md.",
    }
    json.dump(m, open(os.path.join(HERE, "MANIFEST.json"), "w"), indent=1)
    print("claimed:", sorted(CLAIMS), "n/a:", [x["property_id"] for x in na])

NA = {}
SOURCE_COMMITS = ["78dc240"]  # regenerated below from git log
import subprocess
SOURCE_COMMITS = subprocess.run(["git","-C","/repo","log","--format=%h","--grep=^verif:"],capture_output=True,text=True).stdout.split()
if __name__ == "__main__":
    main()
