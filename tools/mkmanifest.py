#!/usr/bin/env python3
"""Regenerates /verif/MANIFEST.json from the table below (kept by hand)."""
import json, os
HERE = os.path.dirname(os.path.dirname(os.path.abspath(__file__)))

TRUST = ("Trusted: go/types+go/ssa (x/tools v0.29.0) and ruxvc's SSA semantics; z3 4.8.12 / z3 5.1.0 / cvc5 1.0.3 "
         "(unsat answers); assumed extern contracts listed per run in evidence.coverage.trusted_base; int is mathematical. ")

CLAIMS = {
 "C08": dict(
   text="Contract proof: every method of responseWriter and every status/length/write method of Context is proved, for an arbitrary pre-state satisfying the writer invariant (so for every operation history), to preserve 'exactly one WriteHeader on the underlying writer, before any body byte or flush, carrying the last positive status recorded before the commit (200 if none)', with the body log and Length() growing by exactly the bytes the underlying writer accepted (short writes and errors included).",
   note=TRUST + "The underlying http.ResponseWriter/Flusher is modelled by a ghost call log (assumed extern contracts). Hijack is excluded. The induction over operation sequences (invariant + per-operation postconditions) is the standard meta-argument, not an SMT query.",
   design="6/C08"),
}

PENDING = "deductive check not built yet in this session (work in progress; see DESIGN.md section 6)"

def main():
    props = [json.loads(l) for l in open(os.path.join(HERE, "properties.jsonl"))]
    checks, na = [], []
    for p in props:
        pid = p["id"]
        if pid in CLAIMS:
            c = CLAIMS[pid]
            checks.append({
              "property_id": pid,
              "quick_cmd": f"./check {pid} quick",
              "thorough_cmd": f"./check {pid} thorough",
              "evidence_file": f"/verif/evidence/{pid}.json",
              "replay_cmd_template": f"./check {pid} --replay {{path}}",
              "engine": "ruxvc",
              "level_claimed": {"category": "proof", "text": c["text"], "design_ref": "DESIGN.md section " + c["design"]},
              "level_note": c["note"],
              "technique": c.get("technique", "contract-based deductive verification: weakest-precondition style VCs generated from go/ssa of the real code against //@ contracts, discharged by z3/cvc5"),
            })
        else:
            na.append({"property_id": pid, "reason": NA.get(pid, PENDING)})
    m = {
      "version": 1,
      "setup_cmd": "cd /verif/ruxvc && GOFLAGS=-mod=mod GOPROXY=off GOSUMDB=off GOTOOLCHAIN=local go build -o /verif/bin/ruxvc .",
      "hooks": {
        "guard": "verif",
        "enable": "go build -tags verif (the tag only adds comment-only contract files zz_verif_contracts.go and read-only accessors)",
        "baseline_off_cmd": "cd /repo && GOFLAGS=-mod=mod GOPROXY=off GOSUMDB=off go test -json -vet=off -count=1 -timeout 25m ./...",
        "source_commits": SOURCE_COMMITS,
        "add_only": True,
      },
      "engines": [{"name": "ruxvc", "path": "/verif/ruxvc", "serves_properties": sorted(CLAIMS), "kind_free_text": "verification-condition generator over go/ssa of the real code with Gobra-style //@ contracts; obligations discharged by z3 4.8.12, z3 5.1.0 and cvc5 1.0.3 (raced)"}],
      "checks": checks,
      "not_applicable": na,
      "notes": "Contracts live in /repo/**/zz_verif_contracts.go (build tag verif, comments only). Known findings and fixed defects: /verif/known_findings.json. See DESIGN.md.",
    }
    json.dump(m, open(os.path.join(HERE, "MANIFEST.json"), "w"), indent=1)
    print("claimed:", sorted(CLAIMS), "n/a:", [x["property_id"] for x in na])

NA = {}
SOURCE_COMMITS = ["78dc240"]
if __name__ == "__main__":
    main()
