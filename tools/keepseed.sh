#!/bin/bash
# tools/keepseed.sh <srcdir> <id> [props...] : copy a confirmed seed to /verif/seeded/<id>/ and record what was run
HERE=$(cd "$(dirname "$0")/.." && pwd)
src=$1; id=$2; shift 2
dst=$HERE/seeded/$id; mkdir -p $dst
cp $src/patch.diff $src/demo_test.go $dst/
out=$($HERE/tools/seedtest.sh $src "$@" 2>&1)
echo "$out"
python3 - "$src/meta.json" "$dst/meta.json" <<PY
import json,sys
m=json.load(open(sys.argv[1]))
out='''$out'''
m['confirmed_by_me']=[l for l in out.splitlines() if l.startswith('SEED')]
m['what_i_ran']="tools/seedtest.sh: rsync /repo to a scratch copy, demo test without the patch (pass), patch applied (demo fails), existing suite on ., pkg/binding, pkg/handlers (pass), then ruxvc -prop <id> on the patched copy"
m['check_output']=[l for l in out.splitlines() if not l.startswith('SEED')]
m['caught']=any(l.startswith('VIOLATION') for l in out.splitlines())
json.dump(m,open(sys.argv[2],'w'),indent=1)
PY
