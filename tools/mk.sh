# source me: mk <prop> <name> <expect> <file> <sed-expr> [props]
mk() { d=/verif/mutants/$1; mkdir -p $d; rm -rf /var/tmp/mk; mkdir -p /var/tmp/mk/a /var/tmp/mk/b; cp /repo/$4 /var/tmp/mk/a/$(basename $4); cp /repo/$4 /var/tmp/mk/b/$(basename $4)
  sed -i "$5" /var/tmp/mk/b/$(basename $4)
  if cmp -s /var/tmp/mk/a/$(basename $4) /var/tmp/mk/b/$(basename $4); then echo "NO CHANGE for $2"; return; fi
  { echo "# expect: $3"; [ -n "${6:-}" ] && echo "# props: $6"; (cd /var/tmp/mk && diff -u a/$(basename $4) b/$(basename $4) | sed "s#a/$(basename $4)#a/$4#; s#b/$(basename $4)#b/$4#"); } > $d/$2.patch; rm -rf /var/tmp/mk; }
