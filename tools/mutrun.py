#!/usr/bin/env python3
"""Mutation analysis of the checks: tools/mutrun.py <mutdir> <stage> [jobs]
stage 1: keep mutants that compile and pass the repository's test suite (survivors of the tests)
stage 2: run the property checks of the mutated function on each survivor; report caught / missed
Results: <mutdir>/stage1.json, <mutdir>/stage2.json"""
import json, os, re, subprocess, sys, glob, shutil
from concurrent.futures import ThreadPoolExecutor
import threading, queue

ENV = dict(os.environ, GOFLAGS="-mod=mod", GOPROXY="off", GOSUMDB="off", GOTOOLCHAIN="local")
mutdir, stage = sys.argv[1], sys.argv[2]
jobs = int(sys.argv[3]) if len(sys.argv) > 3 else 8
SCR = "/var/tmp/mutwork"

def tags_by_func():
    out = {}
    for f in ["/repo/zz_verif_contracts.go"] + glob.glob("/repo/pkg/*/zz_verif_contracts.go"):
        pkgdir = os.path.dirname(os.path.relpath(f, "/repo"))
        for l in open(f):
            m = re.match(r"//@ func (\S+)(?:\(.*?\))?\s*(?:\(.*?\))?\s*\[([A-Z0-9, ]+)\]", l)
            if m:
                out.setdefault((pkgdir, m.group(1)), set()).update(t.strip() for t in m.group(2).split(","))
    return out

def worker_dir(i):
    d = f"{SCR}/w{i}"
    if not os.path.isdir(d):
        os.makedirs(d)
        subprocess.run(["rsync", "-a", "--exclude", ".git", "/repo/", d + "/repo/"], check=True)
    return d

def apply(m, d):
    p = os.path.join(d, "repo", m["file"])
    src = open(os.path.join("/repo", m["file"]), "rb").read()
    open(p, "wb").write(src[:m["start"]] + m["repl"].encode() + src[m["end"]:])

def restore(m, d):
    shutil.copyfile(os.path.join("/repo", m["file"]), os.path.join(d, "repo", m["file"]))

def run(cmd, cwd, timeout):
    try:
        r = subprocess.run(cmd, cwd=cwd, env=ENV, capture_output=True, text=True, timeout=timeout)
        return r.returncode, r.stdout + r.stderr
    except subprocess.TimeoutExpired:
        return 124, "timeout"

pool = queue.Queue()
for i in range(jobs):
    pool.put(i)

def stage1(m):
    i = pool.get()
    try:
        d = worker_dir(i)
        apply(m, d)
        rc, out = run(["go", "build", "./..."], d + "/repo", 120)
        if rc != 0:
            return dict(m, result="no-compile")
        rc, out = run(["go", "test", "-vet=off", "-count=1", "-timeout", "60s", ".", "./pkg/binding", "./pkg/handlers"], d + "/repo", 200)
        return dict(m, result="survives-tests" if rc == 0 else "killed-by-tests")
    finally:
        restore(m, worker_dir(i))
        pool.put(i)

def stage2(m):
    i = pool.get()
    try:
        d = worker_dir(i)
        os.makedirs(d + "/v", exist_ok=True)
        shutil.copyfile("/verif/known_findings.json", d + "/v/known_findings.json")
        if not os.path.isdir(d + "/v/bounded"):
            shutil.copytree("/verif/bounded", d + "/v/bounded")
        apply(m, d)
        res = {}
        for p in m["props"]:
            rc, out = run(["/verif/bin/ruxvc", "-repo", d + "/repo", "-verif", d + "/v", "-prop", p, "-noreplay", "-noretry", "-j", "5"], "/verif", 1500)
            v = [l for l in out.splitlines() if l.startswith("VIOLATION")]
            res[p] = [re.sub(r".*obligation=(\S+).*", r"\1", l) for l in v][:4]
            if v:
                break
        return dict(m, caught=any(res.values()), by=res)
    finally:
        restore(m, worker_dir(i))
        pool.put(i)

if stage == "1":
    muts = [json.load(open(f)) for f in sorted(glob.glob(mutdir + "/m*.json"))]
    with ThreadPoolExecutor(jobs) as ex:
        rs = list(ex.map(stage1, muts))
    json.dump(rs, open(mutdir + "/stage1.json", "w"), indent=0)
    from collections import Counter
    print(Counter(r["result"] for r in rs))
elif stage == "2":
    tb = tags_by_func()
    rs = [r for r in json.load(open(mutdir + "/stage1.json")) if r["result"] == "survives-tests"]
    todo, nocontract = [], []
    for r in rs:
        pkgdir = os.path.dirname(r["file"])
        props = set()
        for (pd, name), tags in tb.items():
            if pd == pkgdir and (name == r["func"] or name.startswith(r["func"] + "$")):
                props |= tags
        if props:
            r["props"] = sorted(props)
            todo.append(r)
        else:
            nocontract.append(r)
    print(len(todo), "survivors in functions under contract;", len(nocontract), "in functions without contract")
    with ThreadPoolExecutor(jobs) as ex:
        out = list(ex.map(stage2, todo))
    json.dump(dict(checked=out, nocontract=nocontract), open(mutdir + "/stage2.json", "w"), indent=0)
    print("caught", sum(1 for o in out if o["caught"]), "missed", sum(1 for o in out if not o["caught"]))
elif stage == "2b":
    todo = json.load(open(mutdir + "/stage1b.json"))
    with ThreadPoolExecutor(jobs) as ex:
        out = list(ex.map(stage2, todo))
    json.dump(dict(checked=out), open(mutdir + "/stage2b.json", "w"), indent=0)
    print("caught", sum(1 for o in out if o["caught"]), "missed", sum(1 for o in out if not o["caught"]))
shutil.rmtree(SCR, ignore_errors=True)
