// mutgen: generates first-order mutants of the functions under contract (for the mutation analysis of the
// checks, tools/mutrun.sh). Output: one file per mutant <out>/<id>.json {file, func, line, kind, orig, repl, start, end}.
package main

import (
	"encoding/json"
	"fmt"
	"go/ast"
	"go/parser"
	"go/token"
	"os"
	"path/filepath"
	"strings"
)

type Mut struct {
	ID    string `json:"id"`
	File  string `json:"file"`
	Func  string `json:"func"`
	Line  int    `json:"line"`
	Kind  string `json:"kind"`
	Orig  string `json:"orig"`
	Repl  string `json:"repl"`
	Start int    `json:"start"`
	End   int    `json:"end"`
}

func funcName(fd *ast.FuncDecl) string {
	if fd.Recv == nil || len(fd.Recv.List) == 0 {
		return fd.Name.Name
	}
	t := fd.Recv.List[0].Type
	switch x := t.(type) {
	case *ast.StarExpr:
		if id, ok := x.X.(*ast.Ident); ok {
			return "(*" + id.Name + ")." + fd.Name.Name
		}
	case *ast.Ident:
		return "(" + x.Name + ")." + fd.Name.Name
	}
	return fd.Name.Name
}

func main() {
	repo, out := os.Args[1], os.Args[2]
	files := os.Args[3:]
	os.MkdirAll(out, 0o755)
	n := 0
	for _, rel := range files {
		path := filepath.Join(repo, rel)
		src, err := os.ReadFile(path)
		if err != nil {
			panic(err)
		}
		fset := token.NewFileSet()
		f, err := parser.ParseFile(fset, path, src, 0)
		if err != nil {
			panic(err)
		}
		off := func(p token.Pos) int { return fset.Position(p).Offset }
		emit := func(fn string, pos token.Pos, kind string, s, e int, repl string) {
			n++
			m := Mut{ID: fmt.Sprintf("m%04d", n), File: rel, Func: fn, Line: fset.Position(pos).Line, Kind: kind, Orig: string(src[s:e]), Repl: repl, Start: s, End: e}
			b, _ := json.Marshal(m)
			os.WriteFile(filepath.Join(out, m.ID+".json"), b, 0o644)
		}
		for _, d := range f.Decls {
			fd, ok := d.(*ast.FuncDecl)
			if !ok || fd.Body == nil {
				continue
			}
			fn := funcName(fd)
			ast.Inspect(fd.Body, func(nd ast.Node) bool {
				switch x := nd.(type) {
				case *ast.BinaryExpr:
					alts := map[token.Token][]string{
						token.LSS: {"<="}, token.LEQ: {"<"}, token.GTR: {">="}, token.GEQ: {">"},
						token.EQL: {"!="}, token.NEQ: {"=="}, token.LAND: {"||"}, token.LOR: {"&&"},
						token.ADD: {"-"}, token.SUB: {"+"},
					}
					if as, ok := alts[x.Op]; ok {
						// skip string concatenation for + -> -
						if x.Op == token.ADD {
							if bl, ok := x.Y.(*ast.BasicLit); ok && bl.Kind == token.STRING {
								return true
							}
							if bl, ok := x.X.(*ast.BasicLit); ok && bl.Kind == token.STRING {
								return true
							}
						}
						s := off(x.OpPos)
						for _, a := range as {
							emit(fn, x.OpPos, "binop", s, s+len(x.Op.String()), a)
						}
					}
				case *ast.IfStmt:
					s, e := off(x.Cond.Pos()), off(x.Cond.End())
					emit(fn, x.Cond.Pos(), "negate-if", s, e, "!("+string(src[s:e])+")")
				case *ast.BasicLit:
					if x.Kind == token.INT {
						s, e := off(x.Pos()), off(x.End())
						v := string(src[s:e])
						if v == "0" {
							emit(fn, x.Pos(), "int", s, e, "1")
						} else if v == "1" {
							emit(fn, x.Pos(), "int", s, e, "0")
							emit(fn, x.Pos(), "int", s, e, "2")
						} else if !strings.HasPrefix(v, "0") && len(v) < 6 {
							emit(fn, x.Pos(), "int", s, e, "("+v+"+1)")
						}
					}
				case *ast.ExprStmt:
					if _, ok := x.X.(*ast.CallExpr); ok {
						s, e := off(x.Pos()), off(x.End())
						emit(fn, x.Pos(), "del-call", s, e, "")
					}
				case *ast.AssignStmt:
					if x.Tok == token.ASSIGN || x.Tok == token.ADD_ASSIGN {
						s, e := off(x.Pos()), off(x.End())
						emit(fn, x.Pos(), "del-assign", s, e, "")
					}
				case *ast.IncDecStmt:
					s, e := off(x.Pos()), off(x.End())
					emit(fn, x.Pos(), "del-incdec", s, e, "")
				case *ast.BranchStmt:
					if x.Tok == token.CONTINUE && x.Label == nil {
						s, e := off(x.Pos()), off(x.End())
						emit(fn, x.Pos(), "continue-break", s, e, "break")
					}
				case *ast.ReturnStmt:
					if len(x.Results) == 1 {
						if id, ok := x.Results[0].(*ast.Ident); ok && (id.Name == "true" || id.Name == "false") {
							s, e := off(id.Pos()), off(id.End())
							r := "true"
							if id.Name == "true" {
								r = "false"
							}
							emit(fn, id.Pos(), "bool", s, e, r)
						}
					}
				}
				return true
			})
		}
	}
	fmt.Println(n, "mutants")
}
