package main

import (
	"fmt"
	"os"
	"strings"

	"golang.org/x/tools/go/packages"
	"golang.org/x/tools/go/ssa"
	"golang.org/x/tools/go/ssa/ssautil"
)

func main() {
	dir := os.Args[1]
	cfg := &packages.Config{Mode: packages.LoadAllSyntax, Dir: dir, BuildFlags: []string{"-tags=verif"}}
	pkgs, err := packages.Load(cfg, "./...")
	if err != nil {
		panic(err)
	}
	prog, _ := ssautil.AllPackages(pkgs, ssa.InstantiateGenerics)
	prog.Build()
	for fn := range ssautil.AllFunctions(prog) {
		if fn.Pkg == nil || !strings.HasPrefix(fn.Pkg.Pkg.Path(), "github.com/gookit/rux") {
			continue
		}
		name := fn.String()
		for _, a := range os.Args[2:] {
			if strings.Contains(name, a) {
				fmt.Println("=====", name)
				fn.WriteTo(os.Stdout)
			}
		}
	}
}
