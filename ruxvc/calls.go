package main

import (
	"fmt"
	"go/token"
	"go/types"
	"strings"

	"golang.org/x/tools/go/ssa"
)

// contractForCall finds the contract that governs a call (nil if the callee is to be inlined).
func (ex *Exec) contractForCall(caller *ssa.Function, cc *ssa.CallCommon) (*Contract, *ssa.Function) {
	if cc.IsInvoke() {
		key := cc.Method.FullName()
		return ex.ct.Funcs[key], nil
	}
	if callee := cc.StaticCallee(); callee != nil {
		if c := ex.ct.Funcs[callee.String()]; c != nil {
			return c, callee
		}
		// instantiated generic: look up the origin
		if o := callee.Origin(); o != nil {
			if c := ex.ct.Funcs[o.String()]; c != nil {
				return c, callee
			}
		}
		return nil, callee
	}
	// dynamic call of a function value
	return ex.functypeContract(caller, cc.Value), nil
}

func (ex *Exec) functypeContract(caller *ssa.Function, v ssa.Value) *Contract {
	// by (function, parameter name)
	if p, ok := v.(*ssa.Parameter); ok && caller != nil {
		if c := ex.ct.Funcs["functype:"+caller.String()+":"+p.Name()]; c != nil {
			return c
		}
	}
	// element of a slice parameter: contract of that parameter
	if u, ok := v.(*ssa.UnOp); ok && caller != nil {
		if ia, ok := u.X.(*ssa.IndexAddr); ok {
			if p, ok := ia.X.(*ssa.Parameter); ok {
				if c := ex.ct.Funcs["functype:"+caller.String()+":"+p.Name()]; c != nil {
					return c
				}
			}
		}
	}
	// by (struct type, field) when the value was loaded from a field
	if u, ok := v.(*ssa.UnOp); ok {
		if fa, ok := u.X.(*ssa.FieldAddr); ok {
			stT := deref(fa.X.Type())
			if s, ok := structOf(stT); ok {
				if c := ex.ct.Funcs["functype:field:"+typeKey(stT)+"."+s.Field(fa.Field).Name()]; c != nil {
					return c
				}
			}
		}
	}
	// by call-site ordinal: "functype F:call#k" is the k-th dynamic call of a function value in F (block order)
	if caller != nil {
		k := 0
		for _, b := range caller.Blocks {
			for _, in := range b.Instrs {
				ci, ok := in.(ssa.CallInstruction)
				if !ok {
					continue
				}
				cc := ci.Common()
				if cc.IsInvoke() || cc.StaticCallee() != nil {
					continue
				}
				if _, isB := cc.Value.(*ssa.Builtin); isB {
					continue
				}
				if cc.Value == v {
					if c := ex.ct.Funcs[fmt.Sprintf("functype:%s:call#%d", caller.String(), k)]; c != nil {
						return c
					}
				}
				k++
			}
		}
	}
	t := v.Type()
	if n, ok := t.(*types.Named); ok {
		if c := ex.ct.Funcs["functype:"+typeKey(n)]; c != nil {
			return c
		}
	}
	if c := ex.ct.Funcs["functype:"+typeKey(t.Underlying())]; c != nil {
		return c
	}
	return nil
}

func anyDefers(st *State) bool {
	for f := st.frame; f != nil; f = f.parent {
		if len(f.defers) > 0 {
			return true
		}
	}
	return false
}

func (ex *Exec) stepCall(st *State, b *ssa.BasicBlock, i int, in *ssa.Call) bool {
	fr := st.frame
	cc := in.Common()
	if bi, ok := cc.Value.(*ssa.Builtin); ok {
		fr.vals[in] = ex.builtin(st, in, bi.Name(), cc)
		return true
	}
	var args []*Val
	if cc.IsInvoke() {
		args = append(args, ex.value(st, cc.Value))
	}
	for _, a := range cc.Args {
		args = append(args, ex.value(st, a))
	}
	if cc.IsInvoke() {
		return ex.invoke(st, b, i, in, cc, args)
	}
	callee := cc.StaticCallee()
	if callee != nil {
		var bindings []*Val
		if mc, ok := cc.Value.(*ssa.MakeClosure); ok {
			bindings = fr.vals[mc].Clo.Bindings
		}
		c, _ := ex.contractForCall(fr.fn, cc)
		if c != nil {
			res := ex.applyContract(st, c, args, callee.Signature, in, shortFn(callee.String()))
			if res == nil {
				return false
			}
			fr.vals[in] = res
			return true
		}
		ex.inline(st, callee, args, bindings, retResume, b, i, in)
		return false
	}
	// dynamic call
	fv := ex.value(st, cc.Value)
	if fv.Clo != nil {
		ex.inline(st, fv.Clo.Fn, args, fv.Clo.Bindings, retResume, b, i, in)
		return false
	}
	c := ex.functypeContract(fr.fn, cc.Value)
	if c == nil {
		ex.fail("dynamic call of %s (%s) in %s has no functype contract", cc.Value.Name(), cc.Value.Type(), fr.fn.String())
	}
	ex.usedRelies[c.Key] = true
	ex.noteAssumed("rely condition on function values: " + strings.TrimPrefix(c.Key, "functype:"))
	ex.safe(st, in, "nilfunc", mkNot(mkEq(fv.T, tZero)), "call of nil function value")
	sig := cc.Value.Type().Underlying().(*types.Signature)
	res := ex.applyContract(st, c, append([]*Val{fv}, args...), sig, in, "funcvalue:"+shortFn(strings.TrimPrefix(c.Key, "functype:")))
	if res == nil {
		return false
	}
	fr.vals[in] = res
	return true
}

func (ex *Exec) inline(st *State, callee *ssa.Function, args []*Val, bindings []*Val, rk retKind, b *ssa.BasicBlock, i int, in ssa.Instruction) {
	fr := st.frame
	if callee.Blocks == nil || !ex.ld.inModule(callee) {
		if v := ex.autoPure(st, callee, args); v != nil {
			// a pure, total standard-library function over basic values without a contract: its result is an
			// uninterpreted function of its arguments (so that a harmless rewrite that uses, say,
			// strings.EqualFold is not stopped; nothing is known about the result)
			switch rk {
			case retResume:
				if val, ok := in.(ssa.Value); ok {
					fr.vals[val] = v
				}
				ex.runFrom(st, b, i+1)
				return
			}
		}
	}
	if callee.Blocks == nil {
		ex.fail("call of %s: external function without an extern contract (uncontracted external effect)", callee.String())
	}
	if !ex.ld.inModule(callee) {
		ex.fail("call of %s: function outside the module without an extern contract (uncontracted external effect)", callee.String())
	}
	if fr.depth >= 8 {
		ex.fail("inlining depth exceeded at %s", callee.String())
	}
	for f := fr; f != nil; f = f.parent {
		if f.fn == callee {
			ex.fail("recursive call of %s needs a contract", callee.String())
		}
	}
	nf := &Frame{fn: callee, vals: map[ssa.Value]*Val{}, parent: fr, ret: rk, retBlk: b, retIdx: i, retInst: in, depth: fr.depth + 1, freeVars: map[*ssa.FreeVar]*Val{}}
	if len(args) != len(callee.Params) {
		ex.fail("arity mismatch calling %s", callee.String())
	}
	for k, p := range callee.Params {
		nf.vals[p] = args[k]
	}
	for k, fv := range callee.FreeVars {
		if k < len(bindings) {
			nf.freeVars[fv] = bindings[k]
		}
	}
	st.frame = nf
	ex.runBlock(st, callee.Blocks[0], nil)
}

// ---------------------------------------------------------------------------
// contracts at call sites

func (ex *Exec) contractParamNames(c *Contract, sig *types.Signature, nargs int, functype bool) []string {
	if c.Params != nil {
		return c.Params
	}
	var names []string
	if functype {
		names = append(names, "self")
	}
	if sig.Recv() != nil {
		n := sig.Recv().Name()
		if n == "" || n == "_" {
			n = "self"
		}
		names = append(names, n)
	}
	for k := 0; k < sig.Params().Len(); k++ {
		n := sig.Params().At(k).Name()
		if n == "" || n == "_" {
			n = fmt.Sprintf("arg%d", k)
		}
		names = append(names, n)
	}
	return names
}

// applyContract: assert requires, havoc modifies, assume ensures. Returns nil when the path ended.
func (ex *Exec) applyContract(st *State, c *Contract, args []*Val, sig *types.Signature, in ssa.Instruction, calleeShort string) *Val {
	if c.Kind == "extern" || c.Kind == "trusted" {
		ex.usedExterns[c.Key] = true
		ex.noteAssumed("assumed contract (extern/trusted): " + c.Key)
	}
	if c.Kind == "func" {
		if ex.callsOf[ex.topKey] == nil {
			ex.callsOf[ex.topKey] = map[string]bool{}
		}
		ex.callsOf[ex.topKey][c.Key] = true
	}
	isFT := c.Kind == "functype"
	names := ex.contractParamNames(c, sig, len(args), isFT)
	if len(names) != len(args) {
		ex.fail("contract %s has %d parameter names but the call passes %d values", c.Key, len(names), len(args))
	}
	vars := map[string]*Val{}
	if isFT && strings.Count(c.Key, ":") >= 2 && !strings.HasPrefix(c.Key, "functype:field:") {
		// contract of a function-typed parameter: the enclosing function's parameters are in scope
		fr := st.frame
		for _, p := range fr.fn.Params {
			if v, ok := fr.vals[p]; ok {
				vars[p.Name()] = v
			}
		}
	}
	for k, n := range names {
		vars[n] = args[k]
	}
	pkg := ex.ld.typesPkg(c.Pkg)
	pre := st.snap()
	preNext := st.next
	env := &SpecEnv{ex: ex, st: st, vars: vars, cur: st, old: pre, pkg: pkg, nextOld: preNext}
	if ci, ok := in.(ssa.CallInstruction); ok && c.Kind == "func" {
		if cal := ci.Common().StaticCallee(); cal != nil && len(cal.Blocks) > 0 {
			env.calleeFn = cal
			env.dollar = map[string]*Val{}
		}
	}
	site := "x"
	var pos token.Pos
	if in != nil {
		site = ex.instrLabel(in)
		pos = in.Pos()
	}
	// the callee's proof assumes a non-nil pointer receiver: check it here
	if c.Kind == "func" && sig.Recv() != nil && len(args) > 0 {
		if _, isPtr := sig.Recv().Type().Underlying().(*types.Pointer); isPtr && args[0].T.Sort == SInt && in != nil {
			ex.safe(st, in, "nilrecv:"+calleeShort, mkNot(mkEq(args[0].T, tZero)), "method "+calleeShort+" called on a nil receiver")
		}
	}
	for k, r := range c.Requires {
		g := env.evalBool(r)
		ex.oblige(st, "call", fmt.Sprintf("%s@%s:pre:%s", calleeShort, site, clauseLabel(r, k)), g, ex.clauseTags(r, ex.top.Tags), "precondition of "+calleeShort+": "+r.Src, pos)
		st.assume(g)
	}
	// a function-typed parameter of the function under verification is invoked: its contract may promise
	// that the heap is still as at entry except for the `stable` targets
	if isFT && len(c.Stable) > 0 && st.frame.parent == nil && strings.HasPrefix(c.Key, "functype:"+ex.topKey+":") {
		eenv := *env
		eenv.cur = entryView{st}
		ex.frameObligations(st, ex.resolveTargets(&eenv, c.Stable), ex.top.Tags, "stable:"+strings.TrimPrefix(c.Key, "functype:"+ex.topKey+":")+"@"+site, "when the function value is invoked only the stable targets differ from the entry state in ")
	}
	// closures with a contract of their own passed as arguments: their preconditions must hold when the
	// callee invokes them, i.e. in this state with the callee's stable targets havocked and the parameter
	// contract's preconditions assumed
	if c.Kind == "func" {
		ex.checkClosureArgs(st, c, names, args, vars, pre, preNext, pkg, calleeShort, site, pos)
	}
	// may the callee panic?
	if c.MayPanic || len(c.Panics) > 0 {
		pcond := tTrue
		if !c.MayPanic {
			var cs []Term
			for _, p := range c.Panics {
				cs = append(cs, env.evalBool(p))
			}
			pcond = mkOr(cs...)
		}
		switch {
		case anyDefers(st) || len(ex.top.XEnsures) > 0:
			st2 := st.clone()
			st2.assume(pcond)
			ex.branch(st2, "panic-in:"+calleeShort)
			env2 := &SpecEnv{ex: ex, st: st2, vars: vars, cur: st2, old: pre, pkg: pkg, nextOld: preNext}
			pre2 := &snapshot{st2, pre.heap}
			env2.old = pre2
			ex.havoc(st2, env2, c)
			for _, e := range c.XEnsures {
				st2.assume(env2.evalBool(e))
			}
			pv := ex.freshConst(st2, "panicval", SIface)
			st2.assume(app(SBool, ">", iTag(pv), tZero))
			ex.doPanic(st2, pv, in, "panic in "+calleeShort, tTrue)
		case ex.top.MayPanic:
		case len(ex.top.Panics) > 0:
			ex.oblige(st, "panics", fmt.Sprintf("%s@%s", calleeShort, site), mkImp(pcond, ex.topPanicsAllowed(st)), ex.top.Tags, "a panic of "+calleeShort+" is covered by the panics clauses", pos)
		default:
			if pcond.S == "true" {
				ex.oblige(st, "safe", fmt.Sprintf("nopanic:%s@%s", calleeShort, site), tFalse, ex.top.Tags, calleeShort+" may panic but the function has no panics clause", pos)
			} else {
				ex.oblige(st, "safe", fmt.Sprintf("nopanic:%s@%s", calleeShort, site), mkNot(pcond), ex.top.Tags, calleeShort+" panics under this condition", pos)
			}
		}
	}
	// the allocation counter moves first, so that results are live with respect to the post-state
	if !c.Pure {
		nn := ex.freshConst(st, "next", SInt)
		st.assume(app(SBool, ">=", nn, st.next))
		st.next = nn
	}
	// results
	var res *Val
	rn := resultNames(sig, c)
	rt := sig.Results()
	switch rt.Len() {
	case 0:
		res = &Val{Typ: rt}
	case 1:
		res = ex.freshVal(st, "ret."+calleeShort, rt.At(0).Type())
		vars[rn[0]] = res
	default:
		res = &Val{Typ: rt}
		for k := 0; k < rt.Len(); k++ {
			v := ex.freshVal(st, fmt.Sprintf("ret%d.%s", k, calleeShort), rt.At(k).Type())
			res.Tup = append(res.Tup, v)
			vars[rn[k]] = v
		}
	}
	// frame (targets may mention the results, e.g. fields of a returned fresh object)
	ex.havocTargetsOnly(st, env, c)
	before := st.lines[:len(st.lines):len(st.lines)]
	for _, e := range c.Ensures {
		st.assume(env.evalBool(e))
	}
	neverReturns := false
	for _, e := range c.Ensures {
		if id, ok := e.E.(*EIdent); ok && id.Name == "false" {
			neverReturns = true
		}
	}
	if c.Kind != "func" && len(c.Ensures) > 0 && !neverReturns {
		// relative vacuity: an assumed contract must not make a feasible path infeasible
		name := fmt.Sprintf("%s#cover:after:%s@%s", shortFn(ex.topKey), calleeShort, site)
		ex.oblCount[name]++
		ex.obls = append(ex.obls, &Obligation{Name: name, Fn: ex.topKey, Class: "cover-call", Tags: ex.top.Tags, Lines: st.lines[:len(st.lines):len(st.lines)], Before: before, Goal: tTrue, Cover: true,
			Desc: "the assumed contract of " + calleeShort + " is consistent with the state at this call", Trace: append([]string(nil), st.trace...), Inst: ex.oblCount[name]})
	}
	return res
}

// autoPure models calls of side-effect-free, panic-free standard-library functions over basic values.
var autoPurePkgs = map[string]bool{"strings": true, "strconv": true, "unicode": true, "unicode/utf8": true, "path": true, "math": true, "math/bits": true}
var autoPureDeny = map[string]bool{"strings.Repeat": true, "strings.NewReplacer": true, "strconv.Quote": false}

// single functions of other packages with the same shape (pure, total, basic values)
var autoPureAllow = map[string]bool{"net/url.PathEscape": true, "net/url.QueryEscape": true, "html.EscapeString": true, "html.UnescapeString": true}

func (ex *Exec) autoPure(st *State, callee *ssa.Function, args []*Val) *Val {
	if callee.Pkg == nil || callee.Signature.Recv() != nil || !(autoPurePkgs[callee.Pkg.Pkg.Path()] || autoPureAllow[callee.Pkg.Pkg.Path()+"."+callee.Name()]) {
		return nil
	}
	full := callee.Pkg.Pkg.Path() + "." + callee.Name()
	if autoPureDeny[full] {
		return nil
	}
	basic := func(t types.Type) bool {
		b, ok := t.Underlying().(*types.Basic)
		return ok && (b.Info()&(types.IsInteger|types.IsBoolean|types.IsString)) != 0
	}
	sig := callee.Signature
	if sig.Results().Len() != 1 || !basic(sig.Results().At(0).Type()) || sig.Variadic() {
		return nil
	}
	var sorts []Sort
	var ts []string
	for k := 0; k < sig.Params().Len(); k++ {
		if !basic(sig.Params().At(k).Type()) || k >= len(args) {
			return nil
		}
		sorts = append(sorts, args[k].T.Sort)
		ts = append(ts, args[k].T.S)
	}
	rt := sig.Results().At(0).Type()
	f := ex.uninterp("auto:"+full, sorts, sortOfType(rt))
	ex.noteAssumed("standard-library function modelled as an uninterpreted pure function (no contract): " + full)
	t := Term{f, sortOfType(rt)}
	if len(ts) > 0 {
		t = Term{fmt.Sprintf("(%s %s)", f, strings.Join(ts, " ")), sortOfType(rt)}
	}
	v := scalar(t, rt)
	st.assume(ex.wfValue(st, rt, v.T))
	return v
}

func (ex *Exec) checkClosureArgs(st *State, c *Contract, names []string, args []*Val, vars map[string]*Val, pre *snapshot, preNext Term, pkg *types.Package, calleeShort, site string, pos token.Pos) {
	for k, a := range args {
		if a == nil || a.Clo == nil {
			continue
		}
		cc := ex.ct.Funcs[a.Clo.Fn.String()]
		if cc == nil || len(cc.Requires) == 0 {
			continue
		}
		ft := ex.ct.Funcs["functype:"+c.Key+":"+names[k]]
		if ft == nil || len(ft.Stable) == 0 {
			ex.oblige(st, "call", fmt.Sprintf("%s@%s:closure-pre:%s", calleeShort, site, names[k]), tFalse, ex.top.Tags,
				"a closure with preconditions is passed as "+names[k]+" but the parameter's contract declares no stable state", pos)
			continue
		}
		st2 := st.clone()
		henv := &SpecEnv{ex: ex, st: st2, vars: vars, cur: pre, old: pre, pkg: pkg, nextOld: preNext}
		for _, t := range ex.resolveTargets(henv, ft.Stable) {
			ex.havocTarget(st2, t)
		}
		fvars := map[string]*Val{}
		for n, v := range vars {
			fvars[n] = v
		}
		fvars["self"] = a
		fenv := &SpecEnv{ex: ex, st: st2, vars: fvars, cur: st2, old: pre, pkg: ex.ld.typesPkg(ft.Pkg), nextOld: preNext, entry: pre}
		for _, r := range ft.Requires {
			st2.assume(fenv.evalBool(r))
		}
		cv := map[string]*Val{}
		for j, fv := range a.Clo.Fn.FreeVars {
			if j >= len(a.Clo.Bindings) {
				break
			}
			b := a.Clo.Bindings[j]
			pt, isPtr := fv.Type().Underlying().(*types.Pointer)
			switch {
			case b.Addr != nil:
				cv[fv.Name()] = ex.loadAddr(st2, b.Addr)
			case isPtr:
				if _, isS := structOf(pt.Elem()); isS {
					cv[fv.Name()] = ex.loadStruct(st2, st2, b.T, pt.Elem())
				} else {
					cv[fv.Name()] = b
				}
			default:
				cv[fv.Name()] = b
			}
		}
		for _, p := range a.Clo.Fn.Params {
			cv[p.Name()] = ex.freshVal(st2, "cloarg."+p.Name(), p.Type())
		}
		cenv := &SpecEnv{ex: ex, st: st2, vars: cv, cur: st2, old: st2.snap(), pkg: a.Clo.Fn.Pkg.Pkg, nextOld: st2.next}
		for i, r := range cc.Requires {
			ex.oblige(st2, "call", fmt.Sprintf("%s@%s:closure-pre:%s:%s", calleeShort, site, names[k], clauseLabel(r, i)), cenv.evalBool(r), ex.clauseTags(r, ex.top.Tags),
				"precondition of the closure passed as "+names[k]+" holds when "+calleeShort+" invokes it: "+r.Src, pos)
		}
	}
}

func (ex *Exec) topPanicsAllowed(st *State) Term {
	env := &SpecEnv{ex: ex, st: st, vars: ex.topVars(st), cur: entryView{st}, old: entryView{st}, pkg: ex.topFn.Pkg.Pkg, nextOld: st.next0}
	var cs []Term
	for _, p := range ex.top.Panics {
		cs = append(cs, env.evalBool(p))
	}
	return mkOr(cs...)
}

// havocTargetsOnly applies the modifies clause without touching the allocation counter.
func (ex *Exec) havocTargetsOnly(st *State, env *SpecEnv, c *Contract) {
	if c.ModAny {
		ex.fail("call of %s with an unbounded frame (modifies *) cannot be summarised", c.Key)
	}
	preEnv := *env
	preEnv.cur = env.old
	for _, t := range ex.resolveTargets(&preEnv, c.Modifies) {
		ex.havocTarget(st, t)
	}
}

// havoc applies the frame of a contract to the state.
func (ex *Exec) havoc(st *State, env *SpecEnv, c *Contract) {
	if c.ModAny {
		ex.fail("call of %s with an unbounded frame (modifies *) cannot be summarised", c.Key)
	}
	preEnv := *env
	preEnv.cur = env.old
	targets := ex.resolveTargets(&preEnv, c.Modifies)
	for _, t := range targets {
		ex.havocTarget(st, t)
	}
	if !c.Pure {
		nn := ex.freshConst(st, "next", SInt)
		st.assume(app(SBool, ">=", nn, st.next))
		st.next = nn
	}
}

type target struct {
	key  string
	sort Sort
	idx  []Term
	cond Term
}

func (ex *Exec) havocTarget(st *State, t target) {
	if strings.HasPrefix(t.key, "V:") {
		nc := ex.freshConst(st, "hv."+t.key, t.sort)
		st.setComp(t.key, nc)
		return
	}
	comp := st.comp(t.key, t.sort)
	switch len(t.idx) {
	case 0:
		nc := ex.freshConst(st, "hv."+t.key, t.sort)
		st.compWF(t.key, nc)
		st.setComp(t.key, nc)
	case 1:
		nv := ex.freshConst(st, "hv."+t.key, elemSortOf(t.sort))
		st.setComp(t.key, ex.define(st, t.key, mkStore(comp, t.idx[0], nv)))
		if strings.HasPrefix(t.key, "MV:") {
			dk := "MD:" + strings.TrimPrefix(t.key, "MV:")
			ks := keySortOf(nv.Sort)
			dom := st.comp(dk, arraySort(SInt, arraySort(ks, SBool)))
			st.emit(fmt.Sprintf("(assert (forall ((kz %s)) (! (=> (not (select (select %s %s) kz)) (= (select %s kz) %s)) :pattern ((select %s kz)))))", ks, dom.S, t.idx[0].S, nv.S, zeroOfSort(elemSortOf(nv.Sort)).S, nv.S))
		}
	case 2:
		row := mkSelect(comp, t.idx[0])
		nv := ex.freshConst(st, "hv."+t.key, elemSortOf(row.Sort))
		st.setComp(t.key, ex.define(st, t.key, mkStore(comp, t.idx[0], mkStore(row, t.idx[1], nv))))
		if strings.HasPrefix(t.key, "MV:") {
			dk := "MD:" + strings.TrimPrefix(t.key, "MV:")
			dom := st.comp(dk, arraySort(SInt, arraySort(keySortOf(row.Sort), SBool)))
			st.assume(mkImp(mkNot(mkSelect(mkSelect(dom, t.idx[0]), t.idx[1])), mkEq(nv, zeroOfSort(nv.Sort))))
		}
	default:
		ex.fail("havoc target with %d indices", len(t.idx))
	}
}

// resolveTargets evaluates modifies targets (in env.cur, normally the pre-state).
func (ex *Exec) resolveTargets(env *SpecEnv, mods []ModTarget) []target {
	var out []target
	for _, m := range mods {
		out = append(out, ex.resolveTarget(env, m.E, m.Src)...)
	}
	return out
}

func (ex *Exec) structTargets(base Term, t types.Type, whole bool) []target {
	var out []target
	s, _ := structOf(t)
	for i := 0; i < s.NumFields(); i++ {
		ft := s.Field(i).Type()
		if _, isS := structOf(ft); isS {
			out = append(out, ex.structTargets(subRef(base, i), ft, whole)...)
			continue
		}
		so := sortOfType(ft)
		if so == SAgg {
			continue
		}
		tg := target{key: fieldKey(t, i), sort: arraySort(SInt, so)}
		if !whole {
			tg.idx = []Term{base}
		}
		out = append(out, tg)
	}
	return out
}

func (ex *Exec) resolveTarget(env *SpecEnv, e Expr, src string) []target {
	switch e := e.(type) {
	case *EField:
		// Type.field : whole component
		if id, ok := e.X.(*EIdent); ok {
			if _, isVar := env.vars[id.Name]; !isVar {
				if t := ex.ld.resolveType(id.Name, env.pkg); t != nil {
					if s, ok := structOf(t); ok {
						for i := 0; i < s.NumFields(); i++ {
							if s.Field(i).Name() == e.Name {
								ft := s.Field(i).Type()
								if _, isS := structOf(ft); isS {
									return ex.structTargets(tZero, ft, true)
								}
								return []target{{key: fieldKey(t, i), sort: arraySort(SInt, sortOfType(ft))}}
							}
						}
						ex.fail("modifies %s: no field %s", src, e.Name)
					}
				}
			}
		}
		x := env.eval(e.X)
		t := deref(x.Typ)
		s, ok := structOf(t)
		if !ok {
			ex.fail("modifies %s: %s is not a struct", src, e.X)
		}
		for i := 0; i < s.NumFields(); i++ {
			if s.Field(i).Name() == e.Name {
				ft := s.Field(i).Type()
				if _, isS := structOf(ft); isS {
					return ex.structTargets(subRef(x.T, i), ft, false)
				}
				return []target{{key: fieldKey(t, i), sort: arraySort(SInt, sortOfType(ft)), idx: []Term{x.T}}}
			}
		}
		ex.fail("modifies %s: no field %s in %s", src, e.Name, t)
	case *ECall:
		if g, ok := ex.ct.Ghosts[e.Fn]; ok {
			tg := target{key: "G:" + g.Name, sort: ex.ghostSort(g, env.pkg)}
			for _, a := range e.Args {
				if id, ok := a.(*EIdent); ok && id.Name == "_" {
					break
				}
				v := env.eval(a)
				tg.idx = append(tg.idx, ex.asKey(v))
			}
			return []target{tg}
		}
		switch e.Fn {
		case "elems":
			s := env.eval(e.Args[0])
			sl, ok := s.Typ.Underlying().(*types.Slice)
			if !ok {
				ex.fail("modifies %s: not a slice", src)
			}
			so := sortOfType(sl.Elem())
			return []target{{key: elemKey(sl.Elem()), sort: arraySort(SInt, arraySort(SInt, so)), idx: []Term{sArr(s.T)}}}
		case "allelems":
			// allelems([]T): every array of that element type
			if te, ok := e.Args[0].(*EType); ok {
				t := ex.ld.resolveType(te.T, env.pkg)
				if sl, ok := t.Underlying().(*types.Slice); ok {
					so := sortOfType(sl.Elem())
					return []target{{key: elemKey(sl.Elem()), sort: arraySort(SInt, arraySort(SInt, so))}}
				}
			}
			ex.fail("modifies %s: allelems needs a slice type", src)
		case "allentries":
			tn := ""
			if te, ok := e.Args[0].(*EIdent); ok {
				tn = te.Name
			} else if fe, ok := e.Args[0].(*EField); ok {
				if id, ok := fe.X.(*EIdent); ok {
					tn = id.Name + "." + fe.Name
				}
			}
			if tn != "" {
				te := &EIdent{tn}
				if t := ex.ld.resolveType(te.Name, env.pkg); t != nil {
					if mt, ok := t.Underlying().(*types.Map); ok {
						return ex.mapTargets(mt, nil)
					}
				}
			}
			ex.fail("modifies %s: allentries needs a named map type", src)
		case "entries":
			m := env.eval(e.Args[0])
			mt, ok := m.Typ.Underlying().(*types.Map)
			if !ok {
				ex.fail("modifies %s: not a map", src)
			}
			return ex.mapTargets(mt, []Term{m.T})
		case "fields":
			x := env.eval(e.Args[0])
			t := deref(x.Typ)
			if _, ok := structOf(t); !ok {
				ex.fail("modifies %s: not a struct", src)
			}
			return ex.structTargets(x.T, t, false)
		case "allfields":
			tname := ""
			if te, ok := e.Args[0].(*EIdent); ok {
				tname = te.Name
			} else if fe, ok := e.Args[0].(*EField); ok {
				if id, ok := fe.X.(*EIdent); ok {
					tname = id.Name + "." + fe.Name
				}
			}
			if tname != "" {
				te := &EIdent{tname}
				t := ex.ld.resolveType(te.Name, env.pkg)
				if t != nil {
					if _, ok := structOf(t); ok {
						return ex.structTargets(tZero, t, true)
					}
				}
			}
			ex.fail("modifies %s: allfields needs a struct type name", src)
		}
		ex.fail("modifies %s: unknown target form", src)
	case *EIndex:
		x := env.eval(e.X)
		i := env.eval(e.I)
		switch t := x.Typ.Underlying().(type) {
		case *types.Slice:
			so := sortOfType(t.Elem())
			return []target{{key: elemKey(t.Elem()), sort: arraySort(SInt, arraySort(SInt, so)), idx: []Term{sArr(x.T), idxT(sOff(x.T), i.T)}}}
		case *types.Map:
			return ex.mapTargets(t, []Term{x.T, i.T})
		}
		ex.fail("modifies %s: bad index target", src)
	case *EIdent:
		if v := ex.ld.lookupGlobal(e.Name, env.pkg); v != nil {
			return []target{{key: "V:" + v.Pkg().Path() + "." + v.Name(), sort: sortOfType(v.Type())}}
		}
		ex.fail("modifies %s: unknown global", src)
	}
	ex.fail("modifies %s: unsupported target", src)
	return nil
}

func (ex *Exec) mapTargets(mt *types.Map, idx []Term) []target {
	if len(idx) > 1 {
		idx = []Term{idx[0], mapKeyTerm(idx[1])}
	}
	dk, vk, ck := mapKeys(mt)
	ks := mapKeySort(mt)
	out := []target{{key: dk, sort: arraySort(SInt, arraySort(ks, SBool)), idx: idx}}
	if vs := sortOfType(mt.Elem()); vs != SAgg {
		out = append(out, target{key: vk, sort: arraySort(SInt, arraySort(ks, vs)), idx: idx})
	}
	ci := idx
	if len(ci) > 1 {
		ci = ci[:1]
	}
	out = append(out, target{key: ck, sort: arraySort(SInt, SInt), idx: ci})
	return out
}

// modTargetComps: heap components named by a contract's modifies clause (static over-approximation
// used for loop havoc): evaluated in a scratch state with unconstrained arguments.
func (ex *Exec) modTargetComps(c *Contract, m ModTarget, cc *ssa.CallCommon, comps map[string]Sort) {
	scratch := &State{heap: map[string]Term{}, declared: map[string]bool{}, cells: map[int]*Val{}}
	scratch.next = tOne
	scratch.next0 = tOne
	sig := cc.Signature()
	isFT := c.Kind == "functype"
	var argTypes []types.Type
	if isFT {
		argTypes = append(argTypes, cc.Value.Type())
	}
	if cc.IsInvoke() {
		argTypes = append(argTypes, cc.Value.Type())
	} else if sig.Recv() != nil {
		// static method call: receiver is the first argument
	}
	for _, a := range cc.Args {
		argTypes = append(argTypes, a.Type())
	}
	names := ex.contractParamNames(c, sig, len(argTypes), isFT)
	if cc.IsInvoke() && c.Params == nil {
		// invoke: Signature has no receiver; prepend self
		names = append([]string{"self"}, names...)
	}
	vars := map[string]*Val{}
	for k, n := range names {
		if k < len(argTypes) {
			vars[n] = ex.freshVal(scratch, "scratch", argTypes[k])
		}
	}
	env := &SpecEnv{ex: ex, st: scratch, vars: vars, cur: scratch, old: scratch, pkg: ex.ld.typesPkg(c.Pkg), nextOld: tOne}
	for _, t := range ex.resolveTarget(env, m.E, m.Src) {
		comps[t.key] = t.sort
	}
}

// ---------------------------------------------------------------------------
// interface method calls

func (ex *Exec) invoke(st *State, b *ssa.BasicBlock, i int, in *ssa.Call, cc *ssa.CallCommon, args []*Val) bool {
	fr := st.frame
	recv := args[0]
	ex.safe(st, in, "nilinvoke", mkNot(mkEq(iTag(recv.T), tZero)), "method call on nil interface value")
	ifaceKey := typeKey(cc.Value.Type())
	mkey := cc.Method.FullName()
	// known implementations with verified contracts
	type cand struct {
		conc types.Type
		fn   *ssa.Function
		c    *Contract
	}
	var cands []cand
	for _, im := range ex.ct.Impls {
		if im.Iface != ifaceKey {
			continue
		}
		ct := ex.ld.resolveTypeQualified(im.Conc)
		if ct == nil {
			ex.fail("impl declaration: unknown type %s", im.Conc)
		}
		m := ex.ld.prog.LookupMethod(ct, cc.Method.Pkg(), cc.Method.Name())
		if m == nil {
			continue
		}
		c := ex.ct.Funcs[m.String()]
		cands = append(cands, cand{ct, m, c})
	}
	ext := ex.ct.Funcs[mkey]
	sig := cc.Signature()
	mname := cc.Method.Name()
	for _, cd := range cands {
		st2 := st.clone()
		st2.assume(mkEq(iTag(recv.T), ex.tagOf(cd.conc)))
		ex.branch(st2, "dyn:"+shortFn(typeKey(cd.conc))+"."+mname)
		st.assume(mkNot(mkEq(iTag(recv.T), ex.tagOf(cd.conc))))
		a2 := append([]*Val{scalar(iVal(recv.T), cd.conc)}, args[1:]...)
		if cd.c != nil {
			res := ex.applyContract(st2, cd.c, a2, cd.fn.Signature, in, shortFn(cd.fn.String()))
			if res != nil {
				st2.frame.vals[in] = res
				ex.runFrom(st2, b, i+1)
			}
		} else {
			ex.inline(st2, cd.fn, a2, nil, retResume, b, i, in)
		}
	}
	if ext == nil {
		if len(cands) > 0 {
			// only the declared implementations are possible if the contract file says so; otherwise error
			ex.fail("interface call %s has no extern contract for unknown implementations", mkey)
		}
		ex.fail("interface call %s has no extern contract (uncontracted external effect)", mkey)
	}
	if len(cands) > 0 {
		ex.branch(st, "dyn:other."+mname)
	}
	res := ex.applyContract(st, ext, args, sig, in, shortFn(mkey))
	if res == nil {
		return false
	}
	fr = st.frame
	fr.vals[in] = res
	return true
}

// ---------------------------------------------------------------------------
// builtins

func (ex *Exec) builtin(st *State, in ssa.Instruction, name string, cc *ssa.CallCommon) *Val {
	var args []*Val
	for _, a := range cc.Args {
		args = append(args, ex.value(st, a))
	}
	var rt types.Type
	if v, ok := in.(ssa.Value); ok {
		rt = v.Type()
	}
	switch name {
	case "len":
		x := args[0]
		switch t := cc.Args[0].Type().Underlying().(type) {
		case *types.Basic:
			return scalar(app(SInt, "str.len", x.T), rt)
		case *types.Slice:
			return scalar(sLen(x.T), rt)
		case *types.Map:
			l := ex.define(st, "maplen", ex.mapLen(st, st, t, x.T))
			st.assume(app(SBool, ">=", l, tZero))
			return scalar(l, rt)
		}
	case "cap":
		if _, ok := cc.Args[0].Type().Underlying().(*types.Slice); ok {
			return scalar(sCap(args[0].T), rt)
		}
	case "append":
		return ex.appendOp(st, args[0], args[1], cc.Args[0].Type(), cc.Args[1].Type())
	case "copy":
		return ex.copyOp(st, args[0], args[1], cc.Args[0].Type(), cc.Args[1].Type())
	case "delete":
		mt := cc.Args[0].Type().Underlying().(*types.Map)
		ex.lockCheck(st, in, args[0], true)
		ex.mapDelete(st, mt, args[0].T, args[1].T)
		return &Val{}
	case "recover":
		fr := st.frame
		if st.panicking && fr.ret == retUnwind {
			v := st.panicVal
			st.panicking = false
			return scalar(v, rt)
		}
		return scalar(nilIface, rt)
	case "print", "println":
		return &Val{}
	}
	ex.fail("unsupported builtin %s on %s", name, cc.Args[0].Type())
	return nil
}

func literalInt(t Term) (int64, bool) {
	var n int64
	if _, err := fmt.Sscanf(t.S, "%d", &n); err == nil && fmt.Sprintf("%d", n) == t.S {
		return n, true
	}
	return 0, false
}

// appendOp models append(s, t...) including in-place growth.
func (ex *Exec) appendOp(st *State, s, t *Val, sT, tT types.Type) *Val {
	sl := sT.Underlying().(*types.Slice)
	elem := sl.Elem()
	key, comp := ex.elemsComp(st, elem)
	rowSort := elemSortOf(comp.Sort)
	var tlen Term
	var telem func(j Term) Term // j-th element of t
	if sortOfType(tT) == SString {
		tlen = app(SInt, "str.len", t.T)
		telem = func(j Term) Term { return app(SInt, "str.to_code", app(SString, "str.at", t.T, j)) }
	} else {
		tlen = sLen(t.T)
		trow := mkSelect(comp, sArr(t.T))
		telem = func(j Term) Term { return mkSelect(trow, addT(sOff(t.T), j)) }
	}
	slen, soff, scap, sarr := sLen(s.T), sOff(s.T), sCap(s.T), sArr(s.T)
	newLen := ex.define(st, "alen", app(SInt, "+", slen, tlen))
	fits := ex.define(st, "fits", app(SBool, "<=", newLen, scap))
	fresh := ex.alloc(st, "appendarr")
	ncap := ex.freshConst(st, "acap", SInt)
	st.assume(app(SBool, ">=", ncap, newLen))
	srow := mkSelect(comp, sarr)
	var rowIn, rowNew Term
	if n, ok := literalInt(tlen); ok && n <= 8 {
		rowIn = srow
		rowNew = Term{}
		// new row: copy of s then t — needs a pointwise definition for the copied prefix
		rn := ex.freshConst(st, "arow", rowSort)
		j := Term{"j", SInt}
		st.emit(fmt.Sprintf("(assert (forall ((j Int)) (! (=> (and (<= 0 j) (< j %s)) (= (select %s j) (select %s (+ %s j)))) :pattern ((select %s j)))))", slen.S, rn.S, srow.S, soff.S, rn.S))
		_ = j
		rowNew = rn
		for k := int64(0); k < n; k++ {
			e := telem(intLit(k))
			rowIn = mkStore(rowIn, app(SInt, "+", soff, app(SInt, "+", slen, intLit(k))), e)
			rowNew = mkStore(rowNew, app(SInt, "+", slen, intLit(k)), e)
		}
	} else {
		ri := ex.freshConst(st, "arowi", rowSort)
		base := ex.define(st, "abase", app(SInt, "+", soff, slen))
		tj := telem(app(SInt, "-", Term{"j", SInt}, base))
		st.emit(fmt.Sprintf("(assert (forall ((j Int)) (! (= (select %s j) (ite (and (<= %s j) (< j (+ %s %s))) %s (select %s j))) :pattern ((select %s j)))))",
			ri.S, base.S, base.S, tlen.S, tj.S, srow.S, ri.S))
		rowIn = ri
		rn := ex.freshConst(st, "arown", rowSort)
		tj2 := telem(app(SInt, "-", Term{"j", SInt}, slen))
		st.emit(fmt.Sprintf("(assert (forall ((j Int)) (! (=> (and (<= 0 j) (< j %s)) (= (select %s j) (ite (< j %s) (select %s (+ %s j)) %s))) :pattern ((select %s j)))))",
			newLen.S, rn.S, slen.S, srow.S, soff.S, tj2.S, rn.S))
		rowNew = rn
	}
	// appending nothing returns s itself (also for nil)
	empty := mkEq(tlen, tZero)
	resArr := mkIte(mkOr(fits, empty), sarr, fresh)
	newComp := mkIte(empty, comp, mkIte(fits, mkStore(comp, sarr, rowIn), mkStore(comp, fresh, rowNew)))
	st.setComp(key, ex.define(st, key, newComp))
	res := mkSliceT(resArr, mkIte(mkOr(fits, empty), soff, tZero), newLen, mkIte(mkOr(fits, empty), scap, ncap))
	return scalar(ex.define(st, "app", res), sT)
}

func (ex *Exec) copyOp(st *State, d, s *Val, dT, sT types.Type) *Val {
	sl := dT.Underlying().(*types.Slice)
	key, comp := ex.elemsComp(st, sl.Elem())
	rowSort := elemSortOf(comp.Sort)
	if sortOfType(sT) == SString {
		ex.fail("copy from string is not modelled")
	}
	n := ex.define(st, "ncopy", mkIte(app(SBool, "<=", sLen(d.T), sLen(s.T)), sLen(d.T), sLen(s.T)))
	drow := mkSelect(comp, sArr(d.T))
	srow := mkSelect(comp, sArr(s.T))
	nr := ex.freshConst(st, "crow", rowSort)
	st.emit(fmt.Sprintf("(assert (forall ((j Int)) (! (= (select %s j) (ite (and (<= %s j) (< j (+ %s %s))) (select %s (+ %s (- j %s))) (select %s j))) :pattern ((select %s j)))))",
		nr.S, sOff(d.T).S, sOff(d.T).S, n.S, srow.S, sOff(s.T).S, sOff(d.T).S, drow.S, nr.S))
	st.setComp(key, ex.define(st, key, mkIte(mkEq(n, tZero), comp, mkStore(comp, sArr(d.T), nr))))
	return scalar(n, types.Typ[types.Int])
}

// ---------------------------------------------------------------------------
// defer / panic / recover

func (ex *Exec) pushDefer(st *State, in *ssa.Defer) {
	fr := st.frame
	cc := in.Common()
	d := &deferRec{instr: in, call: cc}
	if cc.IsInvoke() {
		d.args = append(d.args, ex.value(st, cc.Value))
	}
	for _, a := range cc.Args {
		d.args = append(d.args, ex.value(st, a))
	}
	if !cc.IsInvoke() && cc.StaticCallee() == nil {
		d.fnVal = ex.value(st, cc.Value)
	}
	if mc, ok := cc.Value.(*ssa.MakeClosure); ok {
		d.clo = fr.vals[mc].Clo
	}
	fr.defers = append(fr.defers, d)
}

// runDeferred executes one deferred call. Returns false if control was transferred (inlined closure).
func (ex *Exec) runDeferred(st *State, d *deferRec, rk retKind, b *ssa.BasicBlock, i int) bool {
	cc := d.call
	if d.clo != nil {
		ex.inline(st, d.clo.Fn, d.args, d.clo.Bindings, rk, b, i, d.instr)
		return false
	}
	if cc.IsInvoke() {
		ext := ex.ct.Funcs[cc.Method.FullName()]
		if ext == nil {
			ex.fail("deferred interface call %s has no extern contract", cc.Method.FullName())
		}
		ex.applyContract(st, ext, d.args, cc.Signature(), d.instr, shortFn(cc.Method.FullName()))
		return true
	}
	if callee := cc.StaticCallee(); callee != nil {
		if c := ex.ct.Funcs[callee.String()]; c != nil {
			ex.applyContract(st, c, d.args, callee.Signature, d.instr, shortFn(callee.String()))
			return true
		}
		ex.inline(st, callee, d.args, nil, rk, b, i, d.instr)
		return false
	}
	if d.fnVal != nil && d.fnVal.Clo != nil {
		ex.inline(st, d.fnVal.Clo.Fn, d.args, d.fnVal.Clo.Bindings, rk, b, i, d.instr)
		return false
	}
	ex.fail("deferred dynamic call is not supported")
	return true
}

func (ex *Exec) runDefers(st *State, b *ssa.BasicBlock, i int) bool {
	fr := st.frame
	for len(fr.defers) > 0 {
		d := fr.defers[len(fr.defers)-1]
		fr.defers = fr.defers[:len(fr.defers)-1]
		if !ex.runDeferred(st, d, retDefers, b, i) {
			return false
		}
		fr = st.frame
	}
	return true
}

type panicSite struct {
	label string
	pos   token.Pos
	why   string
}

var curPanicSite = map[*State]panicSite{}

func (ex *Exec) doPanic(st *State, val Term, in ssa.Instruction, why string, _ Term) {
	st.panicking = true
	st.panicVal = val
	label := "x"
	var pos token.Pos
	if in != nil {
		label = ex.instrLabel(in)
		pos = in.Pos()
	}
	st.trace = append(st.trace, "PANIC@"+label+": "+why)
	stPanicLabel(st, label, pos, why)
	ex.unwind(st)
}

func stPanicLabel(st *State, label string, pos token.Pos, why string) {
	st.trace = append(st.trace, "")
	st.trace = st.trace[:len(st.trace)-1]
	curPanicSite[st] = panicSite{label, pos, why}
}

func (ex *Exec) unwind(st *State) {
	fr := st.frame
	for len(fr.defers) > 0 {
		d := fr.defers[len(fr.defers)-1]
		fr.defers = fr.defers[:len(fr.defers)-1]
		if !ex.runDeferred(st, d, retUnwind, nil, 0) {
			return
		}
		fr = st.frame
	}
	if !st.panicking {
		// recovered: the function returns normally via its recover block
		delete(curPanicSite, st)
		if fr.fn.Recover != nil {
			ex.runBlock(st, fr.fn.Recover, nil)
			return
		}
		var rs []*Val
		res := fr.fn.Signature.Results()
		for k := 0; k < res.Len(); k++ {
			rs = append(rs, ex.zeroVal(res.At(k).Type()))
		}
		ex.doReturn(st, rs)
		return
	}
	if fr.parent != nil {
		st.frame = fr.parent
		ex.unwind(st)
		return
	}
	// the function under contract panics on this path
	site := curPanicSite[st]
	delete(curPanicSite, st)
	if len(ex.top.XGhostSets) > 0 {
		genv := &SpecEnv{ex: ex, st: st, vars: ex.topVars(st), cur: st, old: entryView{st}, pkg: ex.topFn.Pkg.Pkg, nextOld: st.next0}
		ex.applyGhostSets(st, genv, ex.top.XGhostSets)
	}
	if len(ex.top.XEnsures) > 0 {
		env := &SpecEnv{ex: ex, st: st, vars: ex.topVars(st), cur: st, old: entryView{st}, pkg: ex.topFn.Pkg.Pkg, nextOld: st.next0}
		for i, e := range ex.top.XEnsures {
			ex.obligeClause(st, env, "xensures", clauseLabel(e, i)+"@"+site.label, e, ex.clauseTags(e, ex.top.Tags), site.pos)
		}
	}
	switch {
	case ex.top.MayPanic:
	case len(ex.top.Panics) > 0:
		ex.oblige(st, "panics", "allowed@"+site.label, ex.topPanicsAllowed(st), ex.top.Tags, "panic ("+site.why+") must be covered by a panics clause", site.pos)
	default:
		ex.oblige(st, "safe", "nopanic@"+site.label, tFalse, ex.top.Tags, "the function panics here ("+site.why+") but has no panics clause", site.pos)
	}
	ex.endPath(st)
}

// ---------------------------------------------------------------------------
// map range (iteration along an arbitrary bijection)

func (ex *Exec) rangeStart(st *State, in *ssa.Range) *Val {
	x := ex.value(st, in.X)
	mt, ok := in.X.Type().Underlying().(*types.Map)
	if !ok {
		ex.fail("range over %s is not modelled", in.X.Type())
	}
	dk, vk, ck := mapKeys(mt)
	ks := mapKeySort(mt)
	dom := mkSelect(st.comp(dk, arraySort(SInt, arraySort(ks, SBool))), x.T)
	card := mkSelect(st.comp(ck, arraySort(SInt, SInt)), x.T)
	it := &MapIter{Map: x.T, MTyp: mt}
	it.Dom = ex.define(st, "rdom", dom)
	it.Card = ex.define(st, "rcard", card)
	if vs := sortOfType(mt.Elem()); vs != SAgg {
		it.Vals = ex.define(st, "rvals", mkSelect(st.comp(vk, arraySort(SInt, arraySort(ks, vs))), x.T))
	}
	it.Ord = ex.freshConst(st, "ord", arraySort(ks, SInt))
	it.Inv = ex.freshConst(st, "ordinv", arraySort(SInt, ks))
	// bijection between the domain and [0, card)
	st.assume(app(SBool, ">=", it.Card, tZero))
	st.emit(fmt.Sprintf("(assert (forall ((k %s)) (! (=> (select %s k) (and (<= 0 (select %s k)) (< (select %s k) %s) (= (select %s (select %s k)) k))) :pattern ((select %s k)))))",
		ks, it.Dom.S, it.Ord.S, it.Ord.S, it.Card.S, it.Inv.S, it.Ord.S, it.Ord.S))
	st.emit(fmt.Sprintf("(assert (forall ((p Int)) (! (=> (and (<= 0 p) (< p %s)) (and (select %s (select %s p)) (= (select %s (select %s p)) p))) :pattern ((select %s p)))))",
		it.Card.S, it.Dom.S, it.Inv.S, it.Ord.S, it.Inv.S, it.Inv.S))
	if sortOfType(mt.Key()) == SString {
		// every key of the domain is the interned image of a string
		st.emit(fmt.Sprintf("(assert (forall ((p Int)) (! (=> (and (<= 0 p) (< p %s)) (= (sk (ks (select %s p))) (select %s p))) :pattern ((ks (select %s p))))))", it.Card.S, it.Inv.S, it.Inv.S, it.Inv.S))
	}
	ex.cellSeq++
	st.cells[ex.cellSeq] = scalar(tZero, types.Typ[types.Int])
	return &Val{Typ: in.Type(), Iter: it, Addr: &Addr{Kind: aCell, Cell: ex.cellSeq}}
}

// rangeNext: the position counter of the iterator lives in a cell; in loops it is exposed to
// invariants as the variable `iterpos`.
func (ex *Exec) rangeNext(st *State, in *ssa.Next) bool {
	fr := st.frame
	itv := ex.value(st, in.Iter)
	it := itv.Iter
	if it == nil {
		ex.fail("next on unsupported iterator")
	}
	pos := st.cells[itv.Addr.Cell].T
	ok := ex.define(st, "more", app(SBool, "<", pos, it.Card))
	key := ex.define(st, "rkey", mkSelect(it.Inv, pos))
	if sortOfType(it.MTyp.Key()) == SString {
		ik := key
		key = ex.define(st, "rkeystr", Term{"(ks " + ik.S + ")", SString})
		// every key in the domain is the image of a string
		st.assume(mkImp(ok, mkEq(Term{"(sk " + key.S + ")", SInt}, ik)))
	}
	tup := in.Type().(*types.Tuple)
	res := &Val{Typ: in.Type()}
	res.Tup = append(res.Tup, scalar(ok, types.Typ[types.Bool]))
	res.Tup = append(res.Tup, scalar(key, it.MTyp.Key()))
	if it.Vals.S != "" {
		res.Tup = append(res.Tup, scalar(ex.define(st, "rval", mkSelect(it.Vals, mapKeyTerm(key))), it.MTyp.Elem()))
	} else {
		res.Tup = append(res.Tup, &Val{Typ: tup.At(2).Type()})
	}
	st.cells[itv.Addr.Cell] = scalar(ex.define(st, "rpos", mkIte(ok, app(SInt, "+", pos, tOne), pos)), types.Typ[types.Int])
	fr.vals[in] = res
	return true
}
