package main

import (
	"fmt"
	"go/constant"
	"go/token"
	"go/types"
	"sort"
	"strings"

	"golang.org/x/tools/go/ssa"
)

// Obligation is one verification condition: lines |- goal.
type Obligation struct {
	Name   string
	Fn     string
	Class  string
	Tags   []string
	Lines  []string
	Goal   Term
	Desc   string
	Trace  []string
	Pos    string
	Cover  bool // satisfiability (vacuity) query instead of a validity query
	Before []string // cover-call: the path before the assumed contract was applied
	Inst   int
	Result *SolveResult
}

type ToolError struct {
	Fn  string
	Msg string
}

type toolPanic struct{ msg string }

type Exec struct {
	ld          *Loaded
	ct          *ContractTable
	nfresh      int
	tags        map[string]int
	tagTypes    []types.Type
	preludeSeen map[string]bool
	prelude     []string
	obls        []*Obligation
	errs        []ToolError
	top         *Contract
	topFn       *ssa.Function
	topKey      string
	paths       int
	maxPaths    int
	loops       map[*ssa.Function]*loopInfo
	cellSeq     int
	oblCount    map[string]int
	retPaths    int
	entrySt     *State // state right after the preconditions were assumed (for covers)
	usedExterns map[string]bool
	callsOf     map[string]map[string]bool // function under contract -> contracts of functions under contract (and lemmas) its proof applies
	usedRelies  map[string]bool
	assumedBy   map[string]map[string]bool // function under contract -> extern contracts / relies / defines its proof assumes
	paramVals   map[string][]*Val
	pdomCache   map[*ssa.Function]map[*ssa.BasicBlock]*ssa.BasicBlock
	noMerge     bool
	opaqueReads map[string]*opaqueRead
	revealAll   bool
	autoPat     bool
}

func newExec(ld *Loaded) *Exec {
	return &Exec{ld: ld, ct: ld.ct, tags: map[string]int{}, preludeSeen: map[string]bool{}, loops: map[*ssa.Function]*loopInfo{}, maxPaths: 4000, oblCount: map[string]int{}, usedExterns: map[string]bool{}, usedRelies: map[string]bool{}, callsOf: map[string]map[string]bool{}, assumedBy: map[string]map[string]bool{}, paramVals: map[string][]*Val{}, pdomCache: map[*ssa.Function]map[*ssa.BasicBlock]*ssa.BasicBlock{}, opaqueReads: map[string]*opaqueRead{}}
}

func (ex *Exec) fail(f string, a ...any) {
	panic(toolPanic{fmt.Sprintf(f, a...)})
}

func (ex *Exec) freshName(hint string) string {
	ex.nfresh++
	return quoteSym(fmt.Sprintf("%s!%d", hint, ex.nfresh))
}

func (ex *Exec) freshConst(st *State, hint string, sort Sort) Term {
	if sort == SAgg {
		ex.fail("fresh constant of aggregate sort (%s)", hint)
	}
	n := ex.freshName(hint)
	st.emit(fmt.Sprintf("(declare-const %s %s)", n, sort))
	return Term{n, sort}
}

func isAtomic(t Term) bool {
	return !strings.HasPrefix(t.S, "(") || len(t.S) < 24
}

func (ex *Exec) define(st *State, hint string, t Term) Term {
	if isAtomic(t) {
		return t
	}
	n := ex.freshName(hint)
	st.emit(fmt.Sprintf("(define-fun %s () %s %s)", n, t.Sort, t.S))
	return Term{n, t.Sort}
}

func (ex *Exec) preludeOnce(key, decl string) {
	if !ex.preludeSeen[key] {
		ex.preludeSeen[key] = true
		ex.prelude = append(ex.prelude, decl)
	}
}

// canonType drops the parameter names of a function type, so that identical types get one tag.
func canonType(t types.Type) types.Type {
	sg, ok := t.(*types.Signature)
	if !ok {
		return t
	}
	strip := func(tp *types.Tuple) *types.Tuple {
		var vs []*types.Var
		for i := 0; i < tp.Len(); i++ {
			vs = append(vs, types.NewVar(0, nil, "", tp.At(i).Type()))
		}
		return types.NewTuple(vs...)
	}
	return types.NewSignatureType(nil, nil, nil, strip(sg.Params()), strip(sg.Results()), sg.Variadic())
}

func (ex *Exec) noteAssumed(what string) {
	if ex.assumedBy[ex.topKey] == nil {
		ex.assumedBy[ex.topKey] = map[string]bool{}
	}
	ex.assumedBy[ex.topKey][what] = true
}

func (ex *Exec) tagOf(t types.Type) Term {
	t = canonType(t)
	k := types.TypeString(t, nil)
	n, ok := ex.tags[k]
	if !ok {
		n = len(ex.tags) + 1
		ex.tags[k] = n
		ex.tagTypes = append(ex.tagTypes, t)
	}
	return intLit(int64(n))
}

func (ex *Exec) fnRef(name string) Term {
	s := quoteSym("fn:" + name)
	ex.preludeOnce("fn:"+name, fmt.Sprintf("(declare-const %s Int)\n(assert (> %s 0))", s, s))
	return Term{s, SInt}
}

func (ex *Exec) globRef(name string) Term {
	s := quoteSym("glob:" + name)
	ex.preludeOnce("glob:"+name, fmt.Sprintf("(declare-const %s Int)\n(assert (> %s 0))", s, s))
	return Term{s, SInt}
}

func (ex *Exec) implPred(iface types.Type) string {
	k := types.TypeString(iface, nil)
	s := quoteSym("impl:" + k)
	ex.preludeOnce("impl:"+k, fmt.Sprintf("(declare-fun %s (Int) Bool)", s))
	return s
}

func (ex *Exec) boxFn(sort Sort) (string, string) {
	name := strings.NewReplacer("(", "_", ")", "_", " ", "_").Replace(string(sort))
	b, u := "box_"+name, "unbox_"+name
	ex.preludeOnce("box:"+name, fmt.Sprintf("(declare-fun %s (%s) Int)\n(declare-fun %s (Int) %s)", b, sort, u, sort))
	return b, u
}

func (ex *Exec) uninterp(name string, args []Sort, ret Sort) string {
	s := quoteSym("uf:" + name)
	var as []string
	for _, a := range args {
		as = append(as, string(a))
	}
	ex.preludeOnce("uf:"+name, fmt.Sprintf("(declare-fun %s (%s) %s)", s, strings.Join(as, " "), ret))
	return s
}

// ---------------------------------------------------------------------------
// obligations

func shortFn(key string) string {
	key = strings.ReplaceAll(key, "github.com/gookit/rux/pkg/", "")
	key = strings.ReplaceAll(key, "github.com/gookit/rux.", "")
	key = strings.ReplaceAll(key, "github.com/gookit/rux/", "")
	return key
}

func (ex *Exec) oblige(st *State, class, label string, goal Term, tags []string, desc string, pos token.Pos) {
	if goal.S == "true" {
		// still count it: it is a discharged obligation, trivially
	}
	name := fmt.Sprintf("%s#%s:%s", shortFn(ex.topKey), class, label)
	ex.oblCount[name]++
	o := &Obligation{Name: name, Fn: ex.topKey, Class: class, Tags: tags, Lines: st.lines[:len(st.lines):len(st.lines)], Goal: goal, Desc: desc, Trace: append([]string(nil), st.trace...), Inst: ex.oblCount[name]}
	if pos.IsValid() {
		p := ex.ld.fset.Position(pos)
		o.Pos = fmt.Sprintf("%s:%d", p.Filename, p.Line)
	}
	ex.obls = append(ex.obls, o)
}

// obligeClause emits one obligation per top-level conjunct of a clause.
func (ex *Exec) obligeClause(st *State, env *SpecEnv, class, label string, cl *Clause, tags []string, pos token.Pos) {
	env = env.withPol(1)
	parts := env.conjuncts(cl.E, "")
	if len(parts) == 1 {
		ex.oblige(st, class, label, parts[0].t, tags, cl.Src, pos)
		return
	}
	for k, p := range parts {
		ex.oblige(st, class, fmt.Sprintf("%s/%s%d", label, p.name, k+1), p.t, tags, p.src, pos)
	}
}

func (ex *Exec) cover(st *State, label string, tags []string, desc string) {
	name := fmt.Sprintf("%s#cover:%s", shortFn(ex.topKey), label)
	ex.oblCount[name]++
	o := &Obligation{Name: name, Fn: ex.topKey, Class: "cover", Tags: tags, Lines: st.lines[:len(st.lines):len(st.lines)], Goal: tTrue, Desc: desc, Cover: true, Trace: append([]string(nil), st.trace...), Inst: ex.oblCount[name]}
	ex.obls = append(ex.obls, o)
}

// instruction ordinal inside its function for a stable label
func instrOrdinal(in ssa.Instruction) string {
	b := in.Block()
	for i, x := range b.Instrs {
		if x == in {
			return fmt.Sprintf("b%d.%d", b.Index, i)
		}
	}
	return fmt.Sprintf("b%d", b.Index)
}

// proveLemma emits the obligation of a lemma: a closed formula valid in the theory alone.
func (ex *Exec) proveLemma(lm *Lemma) {
	defer func() {
		if r := recover(); r != nil {
			if tp, ok := r.(toolPanic); ok {
				ex.errs = append(ex.errs, ToolError{"lemma " + lm.Name, tp.msg})
				return
			}
			panic(r)
		}
	}()
	st := &State{heap: map[string]Term{}, declared: map[string]bool{}, cells: map[int]*Val{}}
	st.next0, st.next = tOne, tOne
	env := &SpecEnv{ex: ex, st: st, vars: map[string]*Val{}, cur: st, old: st, pkg: ex.ld.typesPkg(lm.Pkg), nextOld: tOne}
	g := env.eval(lm.E)
	name := "lemma:" + lm.Name
	ex.obls = append(ex.obls, &Obligation{Name: name, Fn: name, Class: "lemma", Tags: lm.Tags, Lines: st.lines, Goal: g.T, Desc: lm.Src, Inst: 1})
}

// ---------------------------------------------------------------------------
// type helpers

func deref(t types.Type) types.Type {
	if p, ok := t.Underlying().(*types.Pointer); ok {
		return p.Elem()
	}
	return t
}

func structOf(t types.Type) (*types.Struct, bool) {
	s, ok := t.Underlying().(*types.Struct)
	return s, ok
}

func typeKey(t types.Type) string { return types.TypeString(t, nil) }

// compRefKind records, per heap component, what kind of reference its leaves hold
// (1: plain reference, 2: interface, 3: slice); used for the heap well-formedness axiom.
var compRefKind = map[string]int{}

func refKindOf(t types.Type) int {
	switch t.Underlying().(type) {
	case *types.Pointer, *types.Map, *types.Chan, *types.Signature:
		return 1
	case *types.Interface:
		return 2
	case *types.Slice:
		return 3
	}
	return 0
}

func fieldKey(structT types.Type, idx int) string {
	s, _ := structOf(structT)
	k := "F:" + typeKey(structT) + "." + s.Field(idx).Name()
	if _, ok := compRefKind[k]; !ok {
		compRefKind[k] = refKindOf(s.Field(idx).Type())
	}
	return k
}

func elemKey(elem types.Type) string {
	k := "E:" + typeKey(elem)
	if _, ok := compRefKind[k]; !ok {
		compRefKind[k] = refKindOf(elem)
	}
	return k
}

func mapKeys(m *types.Map) (dom, val, card string) {
	k := typeKey(m.Key()) + "," + typeKey(m.Elem())
	if _, ok := compRefKind["MV:"+k]; !ok {
		compRefKind["MV:"+k] = refKindOf(m.Elem())
	}
	return "MD:" + k, "MV:" + k, "MC:" + k
}

func isRefLike(t types.Type) bool {
	switch t.Underlying().(type) {
	case *types.Pointer, *types.Map, *types.Chan, *types.Signature, *types.Slice, *types.Interface:
		return true
	}
	if b, ok := t.Underlying().(*types.Basic); ok && b.Kind() == types.UnsafePointer {
		return true
	}
	return false
}

const subFactor = 64
const allocFactor = 262144 // 64^3: room for three levels of embedded structs

func subRef(base Term, fieldIdx int) Term {
	return app(SInt, "+", app(SInt, "*", intLit(subFactor), base), intLit(int64(fieldIdx+1)))
}

// wfValue returns the type invariant of a value of Go type t (ranges, slice header sanity, liveness).
func (ex *Exec) wfValue(st *State, t types.Type, v Term) Term {
	var cs []Term
	if lo, hi, ok := intRange(t); ok {
		cs = append(cs, app(SBool, "<=", intLit(lo), v), app(SBool, "<=", v, intLit(hi)))
	}
	live := func(r Term) Term {
		return mkAnd(app(SBool, ">=", r, tZero), app(SBool, "<=", app(SInt, "+", app(SInt, "*", intLit(allocFactor), r), intLit(allocFactor)), st.next))
	}
	switch t.Underlying().(type) {
	case *types.Pointer, *types.Map, *types.Chan, *types.Signature:
		cs = append(cs, live(v))
	case *types.Slice:
		cs = append(cs, live(sArr(v)), app(SBool, "<=", tZero, sOff(v)), app(SBool, "<=", tZero, sLen(v)), app(SBool, "<=", sLen(v), sCap(v)),
			mkImp(mkEq(sArr(v), tZero), mkEq(sCap(v), tZero)))
	case *types.Interface:
		cs = append(cs, app(SBool, ">=", iTag(v), tZero), mkImp(mkEq(iTag(v), tZero), mkEq(iVal(v), tZero)))
	}
	return mkAnd(cs...)
}

func (ex *Exec) zeroVal(t types.Type) *Val {
	if s, ok := structOf(t); ok {
		v := &Val{Typ: t}
		for i := 0; i < s.NumFields(); i++ {
			v.Fields = append(v.Fields, ex.zeroVal(s.Field(i).Type()))
		}
		return v
	}
	so := sortOfType(t)
	if so == SAgg {
		ex.fail("zero value of unsupported type %s", t)
	}
	return scalar(zeroOfSort(so), t)
}

// freshVal creates an unconstrained value of type t (with its type invariant assumed).
func (ex *Exec) freshVal(st *State, hint string, t types.Type) *Val {
	if s, ok := structOf(t); ok {
		v := &Val{Typ: t}
		for i := 0; i < s.NumFields(); i++ {
			v.Fields = append(v.Fields, ex.freshVal(st, hint+"."+s.Field(i).Name(), s.Field(i).Type()))
		}
		return v
	}
	if tup, ok := t.(*types.Tuple); ok {
		v := &Val{Typ: t}
		for i := 0; i < tup.Len(); i++ {
			v.Tup = append(v.Tup, ex.freshVal(st, fmt.Sprintf("%s.%d", hint, i), tup.At(i).Type()))
		}
		return v
	}
	so := sortOfType(t)
	if so == SAgg {
		ex.fail("fresh value of unsupported type %s", t)
	}
	c := ex.freshConst(st, hint, so)
	st.assume(ex.wfValue(st, t, c))
	return scalar(c, t)
}

// alloc returns a fresh object reference.
func (ex *Exec) alloc(st *State, hint string) Term {
	x := ex.freshConst(st, hint, SInt)
	st.assume(mkAnd(app(SBool, ">", x, tZero), app(SBool, ">=", x, st.next)))
	st.next = ex.define(st, "next", app(SInt, "*", intLit(allocFactor), app(SInt, "+", x, tOne)))
	// ghost state of a fresh object starts at its default
	var gn []string
	for n := range ex.ct.Ghosts {
		gn = append(gn, n)
	}
	sort.Strings(gn)
	for _, n := range gn {
		g := ex.ct.Ghosts[n]
		if g.KeySort[0] != "ref" {
			continue
		}
		so := ex.ghostSort(g, ex.topFn.Pkg.Pkg)
		comp := st.comp("G:"+g.Name, so)
		st.assume(mkEq(mkSelect(comp, x), zeroOfSort(elemSortOf(so))))
	}
	return x
}

// ---------------------------------------------------------------------------
// heap access

func (ex *Exec) fieldSort(ft types.Type) Sort {
	so := sortOfType(ft)
	if so == SAgg {
		ex.fail("field of aggregate type %s has no heap component", ft)
	}
	return arraySort(SInt, so)
}

func (ex *Exec) loadField(st *State, hv HeapView, base Term, structT types.Type, idx int) *Val {
	s, _ := structOf(structT)
	f := s.Field(idx)
	if _, isStruct := structOf(f.Type()); isStruct {
		// embedded struct value: load every field
		sub := subRef(base, idx)
		return ex.loadStruct(st, hv, sub, f.Type())
	}
	comp := hv.comp(fieldKey(structT, idx), ex.fieldSort(f.Type()))
	return scalar(mkSelect(comp, base), f.Type())
}

func (ex *Exec) loadStruct(st *State, hv HeapView, ref Term, structT types.Type) *Val {
	s, _ := structOf(structT)
	v := &Val{Typ: structT}
	for i := 0; i < s.NumFields(); i++ {
		v.Fields = append(v.Fields, ex.loadField(st, hv, ref, structT, i))
	}
	return v
}

func (ex *Exec) storeField(st *State, base Term, structT types.Type, idx int, v *Val) {
	s, _ := structOf(structT)
	f := s.Field(idx)
	if _, isStruct := structOf(f.Type()); isStruct {
		ex.storeStruct(st, subRef(base, idx), f.Type(), v)
		return
	}
	key := fieldKey(structT, idx)
	comp := st.comp(key, ex.fieldSort(f.Type()))
	st.setComp(key, ex.define(st, key, mkStore(comp, base, v.T)))
}

func (ex *Exec) storeStruct(st *State, ref Term, structT types.Type, v *Val) {
	s, _ := structOf(structT)
	if len(v.Fields) != s.NumFields() {
		ex.fail("store of non-aggregate into struct %s", structT)
	}
	for i := 0; i < s.NumFields(); i++ {
		ex.storeField(st, ref, structT, i, v.Fields[i])
	}
}

func (ex *Exec) elemsComp(hv HeapView, elem types.Type) (string, Term) {
	so := sortOfType(elem)
	if so == SAgg {
		ex.fail("slice of aggregate element type %s", elem)
	}
	key := elemKey(elem)
	return key, hv.comp(key, arraySort(SInt, arraySort(SInt, so)))
}

func (ex *Exec) loadAddr(st *State, a *Addr) *Val {
	switch a.Kind {
	case aField:
		comp := st.comp(a.Key, ex.fieldSort(a.Elem))
		v := ex.define(st, "ld", mkSelect(comp, a.Base))
		st.assume(ex.wfValue(st, a.Elem, v))
		return scalar(v, a.Elem)
	case aElem:
		_, comp := ex.elemsComp(st, a.Elem)
		v := ex.define(st, "ld", mkSelect(mkSelect(comp, a.Base), a.Idx))
		st.assume(ex.wfValue(st, a.Elem, v))
		return scalar(v, a.Elem)
	case aCell:
		c, ok := st.cells[a.Cell]
		if !ok {
			ex.fail("load from unknown cell")
		}
		return c
	case aGlobal:
		so := sortOfType(a.Elem)
		if so == SAgg {
			ex.fail("load of aggregate global %s", a.Key)
		}
		v := st.comp(a.Key, so)
		st.assume(ex.wfValue(st, a.Elem, v))
		return scalar(v, a.Elem)
	}
	panic("loadAddr")
}

func (ex *Exec) storeAddr(st *State, a *Addr, v *Val) {
	switch a.Kind {
	case aField:
		comp := st.comp(a.Key, ex.fieldSort(a.Elem))
		st.setComp(a.Key, ex.define(st, a.Key, mkStore(comp, a.Base, v.T)))
	case aElem:
		key, comp := ex.elemsComp(st, a.Elem)
		row := mkStore(mkSelect(comp, a.Base), a.Idx, v.T)
		st.setComp(key, ex.define(st, key, mkStore(comp, a.Base, row)))
	case aCell:
		st.cells[a.Cell] = v
	case aGlobal:
		st.setComp(a.Key, v.T)
	}
}

// ---------------------------------------------------------------------------
// loops

type loopInfo struct {
	headers map[*ssa.BasicBlock]*natLoop
	order   []*ssa.BasicBlock
}

type natLoop struct {
	header  *ssa.BasicBlock
	body    map[*ssa.BasicBlock]bool
	ordinal int
}

func (ex *Exec) loopsOf(fn *ssa.Function) *loopInfo {
	if li, ok := ex.loops[fn]; ok {
		return li
	}
	li := &loopInfo{headers: map[*ssa.BasicBlock]*natLoop{}}
	for _, b := range fn.Blocks {
		for _, s := range b.Succs {
			if s.Dominates(b) {
				// back edge b -> s
				nl := li.headers[s]
				if nl == nil {
					nl = &natLoop{header: s, body: map[*ssa.BasicBlock]bool{s: true}}
					li.headers[s] = nl
					li.order = append(li.order, s)
				}
				// collect natural loop
				stack := []*ssa.BasicBlock{b}
				for len(stack) > 0 {
					x := stack[len(stack)-1]
					stack = stack[:len(stack)-1]
					if nl.body[x] {
						continue
					}
					nl.body[x] = true
					stack = append(stack, x.Preds...)
				}
			}
		}
	}
	sort.Slice(li.order, func(i, j int) bool { return li.order[i].Index < li.order[j].Index })
	for i, h := range li.order {
		li.headers[h].ordinal = i
	}
	ex.loops[fn] = li
	return li
}

// loopModifiedComps: heap components that may be written inside the loop (syntactic, conservative).
func (ex *Exec) loopModified(fn *ssa.Function, nl *natLoop, seen map[*ssa.Function]bool) (comps map[string]Sort, all bool) {
	comps = map[string]Sort{}
	var blocks []*ssa.BasicBlock
	for b := range nl.body {
		blocks = append(blocks, b)
	}
	all = ex.modifiedIn(blocks, comps, map[*ssa.Function]bool{fn: true}, fn)
	return
}

func (ex *Exec) modifiedIn(blocks []*ssa.BasicBlock, comps map[string]Sort, seen map[*ssa.Function]bool, fn *ssa.Function) (all bool) {
	for _, b := range blocks {
		for _, in := range b.Instrs {
			switch in := in.(type) {
			case *ssa.Store:
				ex.addrComps(in.Addr, comps)
			case *ssa.MapUpdate:
				if m, ok := in.Map.Type().Underlying().(*types.Map); ok {
					ex.addMapComps(m, comps)
				}
			case ssa.CallInstruction:
				if _, isGo := in.(*ssa.Go); isGo {
					continue
				}
				cc := in.Common()
				if b, ok := cc.Value.(*ssa.Builtin); ok {
					switch b.Name() {
					case "append", "copy":
						if sl, ok := cc.Args[0].Type().Underlying().(*types.Slice); ok {
							so := sortOfType(sl.Elem())
							if so != SAgg {
								comps[elemKey(sl.Elem())] = arraySort(SInt, arraySort(SInt, so))
							}
						}
					case "delete":
						if m, ok := cc.Args[0].Type().Underlying().(*types.Map); ok {
							ex.addMapComps(m, comps)
						}
					}
					continue
				}
				c, callee := ex.contractForCall(fn, cc)
				if c != nil {
					if c.ModAny {
						all = true
					}
					for _, m := range c.Modifies {
						ex.modTargetComps(c, m, cc, comps)
					}
					continue
				}
				if callee != nil && callee.Blocks != nil && !seen[callee] {
					seen[callee] = true
					if ex.modifiedIn(callee.Blocks, comps, seen, callee) {
						all = true
					}
					for _, af := range callee.AnonFuncs {
						if !seen[af] {
							seen[af] = true
							if ex.modifiedIn(af.Blocks, comps, seen, af) {
								all = true
							}
						}
					}
				}
			}
		}
	}
	return
}

func (ex *Exec) addMapComps(m *types.Map, comps map[string]Sort) {
	d, v, c := mapKeys(m)
	ks := mapKeySort(m)
	comps[d] = arraySort(SInt, arraySort(ks, SBool))
	if vs := sortOfType(m.Elem()); vs != SAgg {
		comps[v] = arraySort(SInt, arraySort(ks, vs))
	}
	comps[c] = arraySort(SInt, SInt)
}

func (ex *Exec) addrComps(addr ssa.Value, comps map[string]Sort) {
	switch a := addr.(type) {
	case *ssa.FieldAddr:
		st := deref(a.X.Type())
		s, _ := structOf(st)
		ft := s.Field(a.Field).Type()
		if _, isS := structOf(ft); isS {
			ex.structComps(ft, comps)
		} else if so := sortOfType(ft); so != SAgg {
			comps[fieldKey(st, a.Field)] = arraySort(SInt, so)
		}
	case *ssa.IndexAddr:
		var elem types.Type
		switch t := a.X.Type().Underlying().(type) {
		case *types.Slice:
			elem = t.Elem()
		case *types.Pointer:
			elem = t.Elem().Underlying().(*types.Array).Elem()
		}
		if elem != nil {
			if so := sortOfType(elem); so != SAgg {
				comps[elemKey(elem)] = arraySort(SInt, arraySort(SInt, so))
			}
		}
	case *ssa.Global:
		t := deref(a.Type())
		if so := sortOfType(t); so != SAgg {
			comps["V:"+a.Pkg.Pkg.Path()+"."+a.Name()] = so
		}
	case *ssa.Alloc, *ssa.FreeVar:
		// cells are not heap components
	default:
		// store through a pointer of unknown origin (parameter of pointer type etc.)
		t := deref(addr.Type())
		if _, isS := structOf(t); isS {
			ex.structComps(t, comps)
		}
	}
}

func (ex *Exec) structComps(t types.Type, comps map[string]Sort) {
	s, _ := structOf(t)
	for i := 0; i < s.NumFields(); i++ {
		ft := s.Field(i).Type()
		if _, isS := structOf(ft); isS {
			ex.structComps(ft, comps)
		} else if so := sortOfType(ft); so != SAgg {
			comps[fieldKey(t, i)] = arraySort(SInt, so)
		}
	}
}

// ---------------------------------------------------------------------------
// running a function under contract

func (ex *Exec) paramNames(fn *ssa.Function, c *Contract) []string {
	var names []string
	for i, p := range fn.Params {
		n := p.Name()
		if c != nil && c.Params != nil && i < len(c.Params) {
			n = c.Params[i]
		}
		names = append(names, n)
	}
	return names
}

func resultNames(sig *types.Signature, c *Contract) []string {
	var names []string
	r := sig.Results()
	for i := 0; i < r.Len(); i++ {
		n := r.At(i).Name()
		if c != nil && c.Results != nil && i < len(c.Results) {
			n = c.Results[i]
		}
		if n == "" || n == "_" {
			if r.Len() == 1 {
				n = "result"
			} else {
				n = fmt.Sprintf("result%d", i)
			}
		}
		names = append(names, n)
	}
	return names
}

func (ex *Exec) verifyFunc(fn *ssa.Function, c *Contract) {
	ex.top, ex.topFn, ex.topKey = c, fn, c.Key
	ex.paths = 0
	ex.retPaths = 0
	defer func() {
		if r := recover(); r != nil {
			if tp, ok := r.(toolPanic); ok {
				ex.errs = append(ex.errs, ToolError{c.Key, tp.msg})
				return
			}
			panic(r)
		}
	}()
	if fn.Blocks == nil {
		ex.fail("function has no body")
	}
	ex.noMerge = c.NoMerge
	st := &State{heap: map[string]Term{}, declared: map[string]bool{}, cells: map[int]*Val{}}
	st.next0 = ex.freshConst(st, "next0", SInt)
	st.assume(app(SBool, ">", st.next0, tOne))
	st.next = st.next0
	fr := &Frame{fn: fn, vals: map[ssa.Value]*Val{}, freeVars: map[*ssa.FreeVar]*Val{}}
	st.frame = fr
	names := ex.paramNames(fn, c)
	vars := map[string]*Val{}
	for i, p := range fn.Params {
		v := ex.freshVal(st, "arg."+names[i], p.Type())
		fr.vals[p] = v
		vars[names[i]] = v
		ex.paramVals[c.Key] = append(ex.paramVals[c.Key], v)
		if i == 0 && fn.Signature.Recv() != nil {
			if _, isPtr := p.Type().Underlying().(*types.Pointer); isPtr {
				st.assume(app(SBool, ">", v.T, tZero))
			}
		}
	}
	for _, fv := range fn.FreeVars {
		// captured variable: pointer to a cell (or a value)
		if pt, ok := fv.Type().Underlying().(*types.Pointer); ok {
			content := ex.freshVal(st, "free."+fv.Name(), pt.Elem())
			ex.cellSeq++
			st.cells[ex.cellSeq] = content
			fr.freeVars[fv] = &Val{Typ: fv.Type(), Addr: &Addr{Kind: aCell, Cell: ex.cellSeq, Elem: pt.Elem()}}
			vars[fv.Name()] = content
		} else {
			v := ex.freshVal(st, "free."+fv.Name(), fv.Type())
			fr.freeVars[fv] = v
			vars[fv.Name()] = v
		}
	}
	env := &SpecEnv{ex: ex, st: st, vars: vars, cur: st, old: entryView{st}, pkg: fn.Pkg.Pkg, nextOld: st.next0}
	for _, r := range c.Requires {
		st.assume(env.evalBool(r))
	}
	for _, ln := range c.Uses {
		lm := ex.ct.Lemmas[ln]
		if lm == nil {
			ex.fail("unknown lemma %s", ln)
		}
		if ex.callsOf[c.Key] == nil {
			ex.callsOf[c.Key] = map[string]bool{}
		}
		ex.callsOf[c.Key]["lemma:"+ln] = true
		lenv := &SpecEnv{ex: ex, st: st, vars: map[string]*Val{}, cur: st, old: entryView{st}, pkg: ex.ld.typesPkg(lm.Pkg), nextOld: st.next0}
		st.assume(lenv.eval(lm.E).T)
	}
	st.trace = nil
	ex.entrySt = st.clone()
	ex.cover(st, "requires", c.Tags, "preconditions are satisfiable")
	ex.runBlock(st, fn.Blocks[0], nil)
	if ex.retPaths == 0 && !c.MayPanic && len(c.Panics) == 0 {
		// no path reaches a normal return: nothing about ensures was checked
		ex.errs = append(ex.errs, ToolError{c.Key, "no execution path reaches a normal return"})
	}
}

func (ex *Exec) topVars(st *State) map[string]*Val {
	fr := st.frame
	for fr.parent != nil {
		fr = fr.parent
	}
	vars := map[string]*Val{}
	names := ex.paramNames(ex.topFn, ex.top)
	for i, p := range ex.topFn.Params {
		vars[names[i]] = fr.vals[p]
	}
	for _, fv := range ex.topFn.FreeVars {
		v := fr.freeVars[fv]
		if v != nil && v.Addr != nil && v.Addr.Kind == aCell {
			vars[fv.Name()] = st.cells[v.Addr.Cell]
		} else if v != nil {
			vars[fv.Name()] = v
		}
	}
	return vars
}

// oldVars: parameters are immutable in SSA, but captured cells are not; `old(x)` of a cell is not supported.

func (ex *Exec) clauseTags(cl *Clause, block []string) []string {
	if len(cl.Tags) > 0 {
		return cl.Tags
	}
	return block
}

func clauseLabel(cl *Clause, i int) string {
	if cl.Label != "" {
		return cl.Label
	}
	return fmt.Sprintf("%d", i)
}


// applyGhostSets executes ghost updates (ghostset at the normal exit, xghostset at an exit by panic).
func (ex *Exec) applyGhostSets(st *State, env *SpecEnv, sets []GhostSet) {
	for _, gs := range sets {
		call, ok := gs.Target.(*ECall)
		g := (*GhostDecl)(nil)
		if ok {
			g = ex.ct.Ghosts[call.Fn]
		}
		if g == nil {
			ex.fail("ghostset target %s is not a ghost map", gs.Src)
		}
		val := env.eval(gs.Value)
		key := "G:" + g.Name
		comp := st.comp(key, ex.ghostSort(g, env.pkg))
		var idx []Term
		for _, a := range call.Args {
			idx = append(idx, ex.asKey(env.eval(a)))
		}
		switch len(idx) {
		case 1:
			st.setComp(key, ex.define(st, key, mkStore(comp, idx[0], val.T)))
		case 2:
			st.setComp(key, ex.define(st, key, mkStore(comp, idx[0], mkStore(mkSelect(comp, idx[0]), idx[1], val.T))))
		default:
			ex.fail("ghostset with %d keys", len(idx))
		}
	}
}

// checkExit: normal return of the function under contract.
func (ex *Exec) checkExit(st *State, results []*Val) {
	ex.retPaths++
	c := ex.top
	vars := ex.topVars(st)
	rn := resultNames(ex.topFn.Signature, c)
	for i, n := range rn {
		if i < len(results) {
			vars[n] = results[i]
		}
	}
	env := &SpecEnv{ex: ex, st: st, vars: vars, cur: st, old: entryView{st}, pkg: ex.topFn.Pkg.Pkg, nextOld: st.next0}
	// the map iteration of the function (when it has exactly one that was started on this path) stays
	// nameable in postconditions: witnesses such as iterord(k)
	if fr := st.frame; fr != nil && fr.parent == nil {
		n := 0
		for v, val := range fr.vals {
			if _, ok := v.(*ssa.Range); ok && val.Iter != nil && val.Addr != nil {
				if cell, ok := st.cells[val.Addr.Cell]; ok {
					n++
					env.iter = val.Iter
					vars["iterpos"] = cell
					vars["itercard"] = scalar(val.Iter.Card, types.Typ[types.Int])
				}
			}
		}
		if n != 1 {
			env.iter = nil
			delete(vars, "iterpos")
			delete(vars, "itercard")
		}
	}
	// ghost updates attached to the function (executed at its normal exit)
	ex.applyGhostSets(st, env, c.GhostSets)
	for i, e := range c.Ensures {
		if e.Kind == "defines" {
			// functional abstraction of a pure deterministic function: assumed at call sites, not checked here
			ex.usedExterns["determinism of "+c.Key+": "+e.Src] = true
			ex.noteAssumed("assumed contract (extern/trusted): determinism of " + c.Key + ": " + e.Src)
			continue
		}
		ex.obligeClause(st, env, "ensures", clauseLabel(e, i), e, ex.clauseTags(e, c.Tags), token.NoPos)
	}
	ex.checkFrame(st, c, env)
	ex.cover(st, "exit", c.Tags, "a normal return path is feasible")
}

// checkFrame: everything written on this path is inside the declared frame.
func (ex *Exec) checkFrame(st *State, c *Contract, env *SpecEnv) {
	if c.ModAny {
		return
	}
	oldEnv := *env
	oldEnv.cur = entryView{st}
	targets := ex.resolveTargets(&oldEnv, c.Modifies)
	ex.frameObligations(st, targets, c.Tags, "frame", "only locations in the modifies clause (or freshly allocated ones) change in ")
}

// frameObligations: every heap component equals its value at function entry except at the targets (and at
// fresh or nil indices).
func (ex *Exec) frameObligations(st *State, targets []target, tags []string, class string, what string) {
	c := struct{ Tags []string }{tags}
	for _, key := range st.heapKeys() {
		cur := st.heap[key]
		if strings.HasPrefix(key, "V:") {
			init := st.initComp(key, cur.Sort)
			allowed := false
			for _, t := range targets {
				if t.key == key {
					allowed = true
				}
			}
			if !allowed {
				ex.oblige(st, class, strings.TrimPrefix(key, "V:"), mkEq(cur, init), c.Tags, "global "+key+" is not in the modifies clause", token.NoPos)
			}
			continue
		}
		init := st.initComp(key, cur.Sort)
		if cur.S == init.S {
			continue
		}
		idx, decls := ex.frameIdx(key, cur.Sort, false)
		goal := ex.frameFormula(key, cur, init, targets, st.next0, idx)
		lines := append(append([]string(nil), st.lines...), decls...)
		name := fmt.Sprintf("%s#%s:%s", shortFn(ex.topKey), class, shortFn(strings.TrimPrefix(strings.TrimPrefix(key, "F:"), "G:")))
		ex.oblCount[name]++
		o := &Obligation{Name: name, Fn: ex.topKey, Class: "frame", Tags: c.Tags, Lines: lines, Goal: goal, Desc: what + key, Trace: append([]string(nil), st.trace...), Inst: ex.oblCount[name]}
		ex.obls = append(ex.obls, o)
	}
}

// frameIdx creates index variables (skolem constants, or bound variables) for a heap component.
func (ex *Exec) frameIdx(key string, so Sort, bound bool) (idx []Term, decls []string) {
	for strings.HasPrefix(string(so), "(Array ") {
		ks := keySortOf(so)
		n := ex.freshName("fr")
		if bound {
			decls = append(decls, fmt.Sprintf("(%s %s)", n, ks))
		} else {
			decls = append(decls, fmt.Sprintf("(declare-const %s %s)", n, ks))
		}
		idx = append(idx, Term{n, ks})
		so = elemSortOf(so)
		if strings.HasPrefix(key, "E:") && len(idx) == 2 {
			break
		}
	}
	return
}

// frameFormula: at index idx, cur equals base, or the location is a declared target, or it was allocated after nextBase.
func (ex *Exec) frameFormula(key string, cur, base Term, targets []target, nextBase Term, idx []Term) Term {
	a, b := cur, base
	for _, iv := range idx {
		a, b = mkSelect(a, iv), mkSelect(b, iv)
	}
	var allowed []Term
	allowed = append(allowed, mkEq(a, b))
	if len(idx) > 0 && idx[0].Sort == SInt && !strings.HasPrefix(key, "G:") {
		allowed = append(allowed, app(SBool, ">=", idx[0], nextBase))
		// index 0 is nil: a nil pointer has no fields, a nil slice no elements, a nil map no entries that
		// real code could write; a difference there can only come from the havoc of a callee's frame
		allowed = append(allowed, app(SBool, "<=", idx[0], tZero))
	}
	for _, t := range targets {
		if t.key != key {
			continue
		}
		var conds []Term
		for i, k := range t.idx {
			if i < len(idx) {
				conds = append(conds, mkEq(idx[i], k))
			}
		}
		if t.cond.S != "" {
			conds = append(conds, t.cond)
		}
		allowed = append(allowed, mkAnd(conds...))
	}
	return mkOr(allowed...)
}

// ---------------------------------------------------------------------------
// block execution

func (ex *Exec) branch(st *State, desc string) {
	st.trace = append(st.trace, desc)
}

func (ex *Exec) runBlock(st *State, b *ssa.BasicBlock, pred *ssa.BasicBlock) {
	if ex.tryStop(st, b, pred) {
		return
	}
	fr := st.frame
	fn := fr.fn
	li := ex.loopsOf(fn)
	startIdx := 0
	if nl, isHeader := li.headers[b]; isHeader {
		fromInside := pred != nil && nl.body[pred]
		phis := ex.evalPhis(st, b, pred)
		lc := ex.ct.Loops[fmt.Sprintf("%s#%d", fn.String(), nl.ordinal)]
		if lc == nil {
			ex.fail("loop #%d of %s (block %d, %s) has no loop contract", nl.ordinal, fn.String(), b.Index, b.Comment)
		}
		ex.checkLoopBinding(lc, b)
		if fromInside {
			// back edge: invariant preserved
			for p, v := range phis {
				fr.vals[p] = v
			}
			env := ex.loopEnv(st, b, lc)
			for i, inv := range lc.Invariants {
				ex.obligeClause(st, env, "inv-step", fmt.Sprintf("L%d.%s", nl.ordinal, clauseLabel(inv, i)), inv, ex.loopTags(inv, lc), token.NoPos)
			}
			if lc.Decreases != nil {
				// measure decreased and bounded below: compare with value saved at the header
				if saved, ok := fr.vals[loopMeasureKey{b}]; ok {
					m := env.eval(lc.Decreases.E)
					ex.oblige(st, "decreases", fmt.Sprintf("L%d", nl.ordinal), mkAnd(app(SBool, "<", m.T, saved.T), app(SBool, ">=", saved.T, tZero)), ex.loopTags(lc.Decreases, lc), lc.Decreases.Src, token.NoPos)
				}
			}
			if lh := fr.loopHeads[b]; lh != nil {
				targets := ex.loopTargets(st, lc)
				for _, k := range lh.keys {
					so := lh.sorts[k]
					if !strings.HasPrefix(string(so), "(Array ") {
						continue
					}
					cur := st.comp(k, so)
					if cur.S == lh.heap[k].S {
						continue
					}
					idx, decls := ex.frameIdx(k, so, false)
					goal := ex.frameFormula(k, cur, lh.heap[k], targets, st.next0, idx)
					lines := append(append([]string(nil), st.lines...), decls...)
					name := fmt.Sprintf("%s#frame:L%d.%s", shortFn(ex.topKey), nl.ordinal, shortFn(strings.TrimPrefix(strings.TrimPrefix(k, "F:"), "G:")))
					ex.oblCount[name]++
					ex.obls = append(ex.obls, &Obligation{Name: name, Fn: ex.topKey, Class: "frame", Tags: ex.top.Tags, Lines: lines, Goal: goal, Desc: "one loop iteration writes only inside the frame: " + k, Trace: append([]string(nil), st.trace...), Inst: ex.oblCount[name]})
				}
			}
			ex.endPath(st)
			return
		}
		// entry: establish, havoc, assume
		for p, v := range phis {
			fr.vals[p] = v
		}
		env := ex.loopEnv(st, b, lc)
		for i, inv := range lc.Invariants {
			ex.obligeClause(st, env, "inv-entry", fmt.Sprintf("L%d.%s", nl.ordinal, clauseLabel(inv, i)), inv, ex.loopTags(inv, lc), token.NoPos)
		}
		comps, all := ex.loopModified(fn, nl, nil)
		if all {
			ex.fail("loop #%d of %s calls code with an unbounded frame (modifies *)", nl.ordinal, fn.String())
		}
		var keys []string
		for k := range comps {
			keys = append(keys, k)
		}
		sort.Strings(keys)
		preLoop := st.snap()
		_ = st.next
		targets := ex.loopTargets(st, lc)
		lh := &loopHead{heap: map[string]Term{}, keys: keys, sorts: comps}
		for _, k := range keys {
			nc := ex.freshConst(st, "loop."+k, comps[k])
			st.compWF(k, nc)
			st.setComp(k, nc)
			lh.heap[k] = nc
			if strings.HasPrefix(string(comps[k]), "(Array ") {
				// locations outside the frame keep their pre-loop values
				idx, decls := ex.frameIdx(k, comps[k], true)
				body := ex.frameFormula(k, nc, preLoop.comp(k, comps[k]), targets, st.next0, idx)
				pat := nc
				for _, iv := range idx {
					pat = mkSelect(pat, iv)
				}
				st.emit(fmt.Sprintf("(assert (forall (%s) (! %s :pattern (%s) :qid |loopframe.%s|)))", strings.Join(decls, " "), body.S, pat.S, k))
			}
		}
		// allocation may happen inside the loop
		nn := ex.freshConst(st, "next", SInt)
		st.assume(app(SBool, ">=", nn, st.next))
		st.next = nn
		lh.next = nn
		nh := map[*ssa.BasicBlock]*loopHead{}
		for k, v := range fr.loopHeads {
			nh[k] = v
		}
		nh[b] = lh
		fr.loopHeads = nh
		for _, in := range b.Instrs {
			p, ok := in.(*ssa.Phi)
			if !ok {
				break
			}
			fr.vals[p] = ex.freshVal(st, "phi."+p.Comment, p.Type())
		}
		// cells written inside the loop
		ex.havocLoopCells(st, nl)
		env = ex.loopEnv(st, b, lc)
		for _, inv := range lc.Invariants {
			st.assume(env.evalBool(inv))
		}
		if lc.Decreases != nil {
			m := env.eval(lc.Decreases.E)
			fr.vals[loopMeasureKey{b}] = scalar(ex.define(st, "measure", m.T), nil)
		}
		ex.branch(st, fmt.Sprintf("loop#%d", nl.ordinal))
		for startIdx < len(b.Instrs) {
			if _, ok := b.Instrs[startIdx].(*ssa.Phi); !ok {
				break
			}
			startIdx++
		}
	} else {
		phis := ex.evalPhis(st, b, pred)
		for p, v := range phis {
			fr.vals[p] = v
		}
		for startIdx < len(b.Instrs) {
			if _, ok := b.Instrs[startIdx].(*ssa.Phi); !ok {
				break
			}
			startIdx++
		}
	}
	ex.runFrom(st, b, startIdx)
}

// loopMeasureKey is a pseudo ssa.Value used to remember the loop measure at the header.
type loopHead struct {
	heap map[string]Term
	next Term
	keys []string
	sorts map[string]Sort
}

type loopMeasureKey struct{ b *ssa.BasicBlock }

func (loopMeasureKey) Name() string                  { return "measure" }
func (loopMeasureKey) String() string                { return "measure" }
func (loopMeasureKey) Type() types.Type              { return types.Typ[types.Int] }
func (loopMeasureKey) Parent() *ssa.Function         { return nil }
func (loopMeasureKey) Referrers() *[]ssa.Instruction { return nil }
func (loopMeasureKey) Pos() token.Pos                { return token.NoPos }

// loopTargets: the frame of a loop: its own modifies clause, else the frame of the function under contract.
func (ex *Exec) loopTargets(st *State, lc *LoopContract) []target {
	fr := st.frame
	if len(lc.Modifies) > 0 {
		env := ex.loopEnvVarsOnly(st)
		env.cur = entryView{st}
		return ex.resolveTargets(env, lc.Modifies)
	}
	if fr.parent != nil && len(ex.top.Modifies) == 0 {
		return nil
	}
	env := &SpecEnv{ex: ex, st: st, vars: ex.topVars(st), cur: entryView{st}, old: entryView{st}, pkg: ex.topFn.Pkg.Pkg, nextOld: st.next0}
	return ex.resolveTargets(env, ex.top.Modifies)
}

func (ex *Exec) loopEnvVarsOnly(st *State) *SpecEnv {
	fr := st.frame
	vars := map[string]*Val{}
	if fr.parent == nil {
		vars = ex.topVars(st)
	} else {
		for _, p := range fr.fn.Params {
			vars[p.Name()] = fr.vals[p]
		}
	}
	return &SpecEnv{ex: ex, st: st, vars: vars, cur: st, old: entryView{st}, pkg: fr.fn.Pkg.Pkg, nextOld: st.next0}
}

func (ex *Exec) loopTags(cl *Clause, lc *LoopContract) []string {
	if len(cl.Tags) > 0 {
		return cl.Tags
	}
	if len(lc.Tags) > 0 {
		return lc.Tags
	}
	return ex.top.Tags
}

func (ex *Exec) checkLoopBinding(lc *LoopContract, header *ssa.BasicBlock) {
	have := map[string]bool{}
	for _, in := range header.Instrs {
		if p, ok := in.(*ssa.Phi); ok {
			have[p.Comment] = true
		}
	}
	for _, v := range lc.Vars {
		if !have[v] {
			var hs []string
			for h := range have {
				hs = append(hs, h)
			}
			sort.Strings(hs)
			ex.fail("loop contract %s#%d expects loop variable %q but the loop at this position has {%s}: the loops of the function changed", lc.FnKey, lc.Ordinal, v, strings.Join(hs, ","))
		}
	}
}

func (ex *Exec) havocLoopCells(st *State, nl *natLoop) {
	fr := st.frame
	for b := range nl.body {
		for _, in := range b.Instrs {
			if nx, ok := in.(*ssa.Next); ok {
				// the position of a map iterator advanced inside the loop
				if v, ok := fr.vals[nx.Iter]; ok && v.Iter != nil && v.Addr != nil {
					p := ex.freshConst(st, "iterpos", SInt)
					st.assume(mkAnd(app(SBool, "<=", tZero, p), app(SBool, "<=", p, v.Iter.Card)))
					st.cells[v.Addr.Cell] = scalar(p, types.Typ[types.Int])
				}
			}
			if s, ok := in.(*ssa.Store); ok {
				if v, ok := fr.vals[s.Addr]; ok && v.Addr != nil && v.Addr.Kind == aCell {
					st.cells[v.Addr.Cell] = ex.freshVal(st, "cell", v.Addr.Elem)
				} else if fv, ok := s.Addr.(*ssa.FreeVar); ok {
					if v := fr.freeVars[fv]; v != nil && v.Addr != nil {
						st.cells[v.Addr.Cell] = ex.freshVal(st, "cell", v.Addr.Elem)
					}
				}
			}
		}
	}
}

// loopEnv: spec environment at a loop header: parameters of the top function (or of the
// inlined function), the header's phis by their source names.
func (ex *Exec) loopEnv(st *State, header *ssa.BasicBlock, lc *LoopContract) *SpecEnv {
	fr := st.frame
	vars := map[string]*Val{}
	if fr.parent == nil {
		for k, v := range ex.topVars(st) {
			vars[k] = v
		}
	} else {
		for _, p := range fr.fn.Params {
			vars[p.Name()] = fr.vals[p]
		}
	}
	for _, in := range header.Instrs {
		if p, ok := in.(*ssa.Phi); ok {
			if v, ok := fr.vals[p]; ok {
				vars[p.Comment] = v
			}
		}
	}
	// named values visible at the header: allocs (locals) with names
	for v, val := range fr.vals {
		if a, ok := v.(*ssa.Alloc); ok && a.Comment != "" && val.Addr != nil && val.Addr.Kind == aCell {
			if c, ok := st.cells[val.Addr.Cell]; ok {
				if _, exists := vars[a.Comment]; !exists {
					vars[a.Comment] = c
				}
			}
		}
	}
	env := &SpecEnv{ex: ex, st: st, vars: vars, cur: st, old: entryView{st}, pkg: fr.fn.Pkg.Pkg, nextOld: st.next0}
	// a map iterator of the function: iterpos (keys delivered so far), itercard, iterkey(q), iterord(k)
	// With several map iterations in one function the names belong to the iteration this loop advances
	// (the `next` of its header); a loop that advances none sees the iteration only if there is exactly one.
	var own ssa.Value
	for _, in := range header.Instrs {
		if nx, ok := in.(*ssa.Next); ok {
			own = nx.Iter
		}
	}
	nIter := 0
	for v, val := range fr.vals {
		if _, ok := v.(*ssa.Range); ok && val.Iter != nil && val.Addr != nil {
			if _, ok := st.cells[val.Addr.Cell]; ok {
				nIter++
			}
		}
	}
	for v, val := range fr.vals {
		if _, ok := v.(*ssa.Range); ok && val.Iter != nil && val.Addr != nil {
			if own != nil && v != own {
				continue
			}
			if own == nil && nIter != 1 {
				continue
			}
			if c, ok := st.cells[val.Addr.Cell]; ok {
				vars["iterpos"] = c
				vars["itercard"] = scalar(val.Iter.Card, types.Typ[types.Int])
				env.iter = val.Iter
			}
		}
	}
	return env
}

func (ex *Exec) evalPhis(st *State, b *ssa.BasicBlock, pred *ssa.BasicBlock) map[*ssa.Phi]*Val {
	out := map[*ssa.Phi]*Val{}
	if pred == nil {
		return out
	}
	pi := -1
	for i, p := range b.Preds {
		if p == pred {
			pi = i
		}
	}
	for _, in := range b.Instrs {
		p, ok := in.(*ssa.Phi)
		if !ok {
			break
		}
		out[p] = ex.value(st, p.Edges[pi])
	}
	return out
}

func (ex *Exec) endPath(st *State) {
	ex.paths++
	if ex.paths > ex.maxPaths {
		ex.fail("more than %d paths", ex.maxPaths)
	}
}

// value evaluates an SSA operand.
func (ex *Exec) value(st *State, v ssa.Value) *Val {
	fr := st.frame
	switch v := v.(type) {
	case *ssa.Const:
		return ex.constVal(v)
	case *ssa.Function:
		return scalar(ex.fnRef(v.String()), v.Type())
	case *ssa.Global:
		t := deref(v.Type())
		name := v.Pkg.Pkg.Path() + "." + v.Name()
		if _, isS := structOf(t); isS {
			return scalar(ex.globRef(name), v.Type())
		}
		return &Val{Typ: v.Type(), Addr: &Addr{Kind: aGlobal, Key: "V:" + name, Elem: t}}
	case *ssa.FreeVar:
		if x, ok := fr.freeVars[v]; ok {
			return x
		}
		ex.fail("unbound free variable %s", v.Name())
	case *ssa.Builtin:
		ex.fail("builtin %s used as a value", v.Name())
	}
	if x, ok := fr.vals[v]; ok {
		return x
	}
	ex.fail("value %s (%T) of %s not computed on this path", v.Name(), v, fr.fn.String())
	return nil
}

func (ex *Exec) constVal(c *ssa.Const) *Val {
	t := c.Type()
	if c.Value == nil {
		// zero value / nil
		if _, isS := structOf(t); isS {
			return ex.zeroVal(t)
		}
		so := sortOfType(t)
		if so == SAgg {
			ex.fail("nil constant of type %s", t)
		}
		return scalar(zeroOfSort(so), t)
	}
	switch c.Value.Kind() {
	case constant.Bool:
		return scalar(boolLit(constant.BoolVal(c.Value)), t)
	case constant.Int:
		return scalar(intLitS(c.Value.ExactString()), t)
	case constant.String:
		return scalar(strLit(constant.StringVal(c.Value)), t)
	}
	ex.fail("unsupported constant %s", c.String())
	return nil
}

func (ex *Exec) runFrom(st *State, b *ssa.BasicBlock, idx int) {
	for i := idx; i < len(b.Instrs); i++ {
		in := b.Instrs[i]
		cont := ex.step(st, b, i, in)
		if !cont {
			return
		}
	}
}

// safety obligation helper: the function under contract must not panic here
func (ex *Exec) safe(st *State, in ssa.Instruction, label string, cond Term, desc string) {
	if ex.top.MayPanic {
		// may panic anywhere: no safety obligations; but the continuation may assume the check passed
		st.assume(cond)
		return
	}
	if cond.S != "true" {
		ex.oblige(st, "safe", label+"@"+ex.instrLabel(in), cond, ex.top.Tags, desc, in.Pos())
	}
	st.assume(cond)
}

func (ex *Exec) instrLabel(in ssa.Instruction) string {
	fn := in.Parent()
	if fn == ex.topFn {
		return instrOrdinal(in)
	}
	return shortFn(fn.String()) + "." + instrOrdinal(in)
}

// step executes one instruction; returns false when control was transferred.
func (ex *Exec) step(st *State, b *ssa.BasicBlock, i int, in ssa.Instruction) bool {
	fr := st.frame
	set := func(v ssa.Value, x *Val) { fr.vals[v] = x }
	switch in := in.(type) {
	case *ssa.DebugRef:
		return true
	case *ssa.Alloc:
		t := deref(in.Type())
		if _, isS := structOf(t); isS {
			ref := ex.alloc(st, "new."+in.Comment)
			ex.storeStruct(st, ref, t, ex.zeroVal(t))
			set(in, scalar(ref, in.Type()))
			return true
		}
		if arr, ok := t.Underlying().(*types.Array); ok {
			ref := ex.alloc(st, "arr")
			key, comp := ex.elemsComp(st, arr.Elem())
			row := constArray(elemSortOf(comp.Sort), zeroOfSort(sortOfType(arr.Elem())))
			st.setComp(key, ex.define(st, key, mkStore(comp, ref, row)))
			set(in, &Val{T: ref, Typ: in.Type()})
			return true
		}
		ex.cellSeq++
		st.cells[ex.cellSeq] = ex.zeroVal(t)
		set(in, &Val{Typ: in.Type(), Addr: &Addr{Kind: aCell, Cell: ex.cellSeq, Elem: t}})
		return true
	case *ssa.FieldAddr:
		x := ex.value(st, in.X)
		stT := deref(in.X.Type())
		s, _ := structOf(stT)
		if x.Addr != nil {
			ex.fail("field address of a non-object pointer in %s", fr.fn.String())
		}
		ex.safe(st, in, "nil", mkNot(mkEq(x.T, tZero)), "nil pointer dereference (."+s.Field(in.Field).Name()+")")
		ft := s.Field(in.Field).Type()
		if _, isS := structOf(ft); isS {
			set(in, scalar(subRef(x.T, in.Field), in.Type()))
			return true
		}
		set(in, &Val{Typ: in.Type(), Addr: &Addr{Kind: aField, Base: x.T, Key: fieldKey(stT, in.Field), Elem: ft}})
		return true
	case *ssa.Field:
		x := ex.value(st, in.X)
		if x.Fields == nil {
			ex.fail("field of non-aggregate value")
		}
		set(in, x.Fields[in.Field])
		return true
	case *ssa.IndexAddr:
		x := ex.value(st, in.X)
		idx := ex.value(st, in.Index)
		switch t := in.X.Type().Underlying().(type) {
		case *types.Slice:
			ex.safe(st, in, "index", mkAnd(app(SBool, "<=", tZero, idx.T), app(SBool, "<", idx.T, sLen(x.T))), "index out of range")
			set(in, &Val{Typ: in.Type(), Addr: &Addr{Kind: aElem, Base: sArr(x.T), Idx: ex.define(st, "ix", idxT(sOff(x.T), idx.T)), Elem: t.Elem()}})
		case *types.Pointer:
			arr := t.Elem().Underlying().(*types.Array)
			ex.safe(st, in, "index", mkAnd(app(SBool, "<=", tZero, idx.T), app(SBool, "<", idx.T, intLit(arr.Len()))), "array index out of range")
			set(in, &Val{Typ: in.Type(), Addr: &Addr{Kind: aElem, Base: x.T, Idx: idx.T, Elem: arr.Elem()}})
		default:
			ex.fail("IndexAddr on %s", in.X.Type())
		}
		return true
	case *ssa.Index:
		x := ex.value(st, in.X)
		idx := ex.value(st, in.Index)
		if sortOfType(in.X.Type()) == SString {
			ex.safe(st, in, "index", mkAnd(app(SBool, "<=", tZero, idx.T), app(SBool, "<", idx.T, app(SInt, "str.len", x.T))), "string index out of range")
			set(in, scalar(ex.define(st, "byte", app(SInt, "str.to_code", app(SString, "str.at", x.T, idx.T))), in.Type()))
			return true
		}
		ex.fail("Index on %s", in.X.Type())
	case *ssa.UnOp:
		return ex.stepUnOp(st, in)
	case *ssa.BinOp:
		x, y := ex.value(st, in.X), ex.value(st, in.Y)
		set(in, ex.binop(st, in, in.Op, x, y, in.Type()))
		return true
	case *ssa.Store:
		a := ex.value(st, in.Addr)
		v := ex.value(st, in.Val)
		if a.Addr == nil {
			// store of a whole struct through an object pointer
			t := deref(in.Addr.Type())
			if _, isS := structOf(t); isS {
				ex.safe(st, in, "nil", mkNot(mkEq(a.T, tZero)), "nil pointer dereference (store)")
				ex.storeStruct(st, a.T, t, v)
				return true
			}
			ex.fail("store through untracked pointer %s in %s", in.Addr.Name(), fr.fn.String())
		}
		ex.storeAddr(st, a.Addr, v)
		return true
	case *ssa.Phi:
		return true
	case *ssa.ChangeType:
		x := ex.value(st, in.X)
		n := *x
		n.Typ = in.Type()
		set(in, &n)
		return true
	case *ssa.ChangeInterface:
		x := ex.value(st, in.X)
		n := *x
		n.Typ = in.Type()
		set(in, &n)
		return true
	case *ssa.Convert:
		set(in, ex.convert(st, in))
		return true
	case *ssa.MakeInterface:
		x := ex.value(st, in.X)
		set(in, ex.makeIface(st, x, in.X.Type(), in.Type()))
		return true
	case *ssa.TypeAssert:
		return ex.stepTypeAssert(st, in)
	case *ssa.Extract:
		t := ex.value(st, in.Tuple)
		if t.Tup == nil {
			ex.fail("extract from non-tuple")
		}
		set(in, t.Tup[in.Index])
		return true
	case *ssa.MakeClosure:
		fn := in.Fn.(*ssa.Function)
		var bs []*Val
		for _, b := range in.Bindings {
			bs = append(bs, ex.value(st, b))
		}
		ref := ex.alloc(st, "closure")
		set(in, &Val{T: ref, Typ: in.Type(), Clo: &Closure{fn, bs}})
		return true
	case *ssa.MakeMap:
		m := in.Type().Underlying().(*types.Map)
		ref := ex.alloc(st, "map")
		dk, vk, ck := mapKeys(m)
		ks := mapKeySort(m)
		dom := st.comp(dk, arraySort(SInt, arraySort(ks, SBool)))
		st.setComp(dk, ex.define(st, dk, mkStore(dom, ref, constArray(arraySort(ks, SBool), tFalse))))
		card := st.comp(ck, arraySort(SInt, SInt))
		st.setComp(ck, ex.define(st, ck, mkStore(card, ref, tZero)))
		if vs := sortOfType(m.Elem()); vs != SAgg {
			vals := st.comp(vk, arraySort(SInt, arraySort(ks, vs)))
			st.setComp(vk, ex.define(st, vk, mkStore(vals, ref, constArray(arraySort(ks, vs), zeroOfSort(vs)))))
		}
		set(in, scalar(ref, in.Type()))
		return true
	case *ssa.MakeSlice:
		sl := in.Type().Underlying().(*types.Slice)
		ln, cp := ex.value(st, in.Len), ex.value(st, in.Cap)
		ex.safe(st, in, "makeslice", mkAnd(app(SBool, "<=", tZero, ln.T), app(SBool, "<=", ln.T, cp.T)), "makeslice: len out of range")
		ref := ex.alloc(st, "slice")
		key, comp := ex.elemsComp(st, sl.Elem())
		row := constArray(elemSortOf(comp.Sort), zeroOfSort(sortOfType(sl.Elem())))
		st.setComp(key, ex.define(st, key, mkStore(comp, ref, row)))
		set(in, scalar(ex.define(st, "mk", mkSliceT(ref, tZero, ln.T, cp.T)), in.Type()))
		return true
	case *ssa.Slice:
		set(in, ex.sliceOp(st, in))
		return true
	case *ssa.Lookup:
		set(in, ex.lookup(st, in))
		return true
	case *ssa.MapUpdate:
		m := ex.value(st, in.Map)
		k := ex.value(st, in.Key)
		v := ex.value(st, in.Value)
		mt := in.Map.Type().Underlying().(*types.Map)
		ex.safe(st, in, "nilmap", mkNot(mkEq(m.T, tZero)), "assignment to entry in nil map")
		ex.lockCheck(st, in, m, true)
		ex.mapStore(st, mt, m.T, k.T, v)
		return true
	case *ssa.Range:
		set(in, ex.rangeStart(st, in))
		return true
	case *ssa.Next:
		return ex.rangeNext(st, in)
	case *ssa.Call:
		return ex.stepCall(st, b, i, in)
	case *ssa.Defer:
		ex.pushDefer(st, in)
		return true
	case *ssa.RunDefers:
		return ex.runDefers(st, b, i)
	case *ssa.Go:
		ex.fail("go statement in %s is outside the supported subset", fr.fn.String())
	case *ssa.If:
		c := ex.value(st, in.Cond)
		tb, fb := b.Succs[0], b.Succs[1]
		if c.T.S == "true" {
			ex.runBlock(st, tb, b)
			return false
		}
		if c.T.S == "false" {
			ex.runBlock(st, fb, b)
			return false
		}
		ex.branchIf(st, b, c.T)
		return false
	case *ssa.Jump:
		ex.runBlock(st, b.Succs[0], b)
		return false
	case *ssa.Return:
		var rs []*Val
		for _, r := range in.Results {
			rs = append(rs, ex.value(st, r))
		}
		ex.doReturn(st, rs)
		return false
	case *ssa.Panic:
		x := ex.value(st, in.X)
		ex.doPanic(st, x.T, in, "explicit panic", tTrue)
		return false
	default:
		ex.fail("unsupported SSA instruction %T (%s) in %s", in, in.String(), fr.fn.String())
	}
	return true
}

func (ex *Exec) stepUnOp(st *State, in *ssa.UnOp) bool {
	fr := st.frame
	x := ex.value(st, in.X)
	switch in.Op {
	case token.MUL: // load
		if x.Addr != nil {
			v := ex.loadAddr(st, x.Addr)
			if lockField, ok := ex.ct.Guards[x.Addr.Key]; ok && x.Addr.Kind == aField {
				if fa, ok := in.X.(*ssa.FieldAddr); ok {
					stT := deref(fa.X.Type())
					if s, ok := structOf(stT); ok {
						for k := 0; k < s.NumFields(); k++ {
							if s.Field(k).Name() == lockField {
								lk := mkSelect(st.comp(fieldKey(stT, k), ex.fieldSort(s.Field(k).Type())), x.Addr.Base)
								nv := *v
								nv.Guard = &lk
								v = &nv
							}
						}
					}
				}
			}
			fr.vals[in] = v
			return true
		}
		t := deref(in.X.Type())
		if _, isS := structOf(t); isS {
			ex.safe(st, in, "nil", mkNot(mkEq(x.T, tZero)), "nil pointer dereference (load)")
			fr.vals[in] = ex.loadStruct(st, st, x.T, t)
			return true
		}
		ex.fail("load through untracked pointer %s in %s", in.X.Name(), fr.fn.String())
	case token.NOT:
		fr.vals[in] = scalar(mkNot(x.T), in.Type())
	case token.SUB:
		fr.vals[in] = scalar(wrapInt(in.Type(), app(SInt, "-", x.T)), in.Type())
	default:
		ex.fail("unsupported unary operator %s", in.Op)
	}
	return true
}

func (ex *Exec) binop(st *State, in ssa.Instruction, op token.Token, x, y *Val, rt types.Type) *Val {
	xs := x.T.Sort
	switch op {
	case token.ADD:
		if xs == SString {
			return scalar(ex.define(st, "cat", app(SString, "str.++", x.T, y.T)), rt)
		}
		return scalar(ex.define(st, "add", wrapInt(rt, app(SInt, "+", x.T, y.T))), rt)
	case token.SUB:
		return scalar(ex.define(st, "sub", wrapInt(rt, app(SInt, "-", x.T, y.T))), rt)
	case token.MUL:
		return scalar(ex.define(st, "mul", wrapInt(rt, app(SInt, "*", x.T, y.T))), rt)
	case token.QUO:
		if in != nil {
			ex.safe(st, in, "div", mkNot(mkEq(y.T, tZero)), "integer divide by zero")
		}
		// Go truncates toward zero
		q := mkIte(app(SBool, ">=", x.T, tZero), app(SInt, "div", x.T, y.T), app(SInt, "-", app(SInt, "div", app(SInt, "-", x.T), y.T)))
		return scalar(ex.define(st, "quo", q), rt)
	case token.REM:
		if in != nil {
			ex.safe(st, in, "div", mkNot(mkEq(y.T, tZero)), "integer divide by zero")
		}
		r := mkIte(app(SBool, ">=", x.T, tZero), app(SInt, "mod", x.T, y.T), app(SInt, "-", app(SInt, "mod", app(SInt, "-", x.T), y.T)))
		return scalar(ex.define(st, "rem", r), rt)
	case token.EQL, token.NEQ:
		var e Term
		if x.Fields != nil || y.Fields != nil {
			ex.fail("comparison of struct values")
		}
		if xs == SSlice {
			// only comparison with nil is legal
			other := y.T
			if x.T.S == nilSlice.S {
				other = y.T
			} else {
				other = x.T
			}
			e = mkEq(sArr(other), tZero)
		} else if xs == SIface && (x.T.S == nilIface.S || y.T.S == nilIface.S) {
			other := x.T
			if x.T.S == nilIface.S {
				other = y.T
			}
			e = mkEq(iTag(other), tZero)
		} else {
			e = mkEq(x.T, y.T)
		}
		if op == token.NEQ {
			e = mkNot(e)
		}
		return scalar(e, rt)
	case token.LSS, token.LEQ, token.GTR, token.GEQ:
		if xs == SString {
			var e Term
			switch op {
			case token.LSS:
				e = app(SBool, "str.<", x.T, y.T)
			case token.LEQ:
				e = app(SBool, "str.<=", x.T, y.T)
			case token.GTR:
				e = app(SBool, "str.<", y.T, x.T)
			case token.GEQ:
				e = app(SBool, "str.<=", y.T, x.T)
			}
			return scalar(e, rt)
		}
		m := map[token.Token]string{token.LSS: "<", token.LEQ: "<=", token.GTR: ">", token.GEQ: ">="}
		return scalar(app(SBool, m[op], x.T, y.T), rt)
	case token.LAND, token.AND:
		if xs == SBool {
			return scalar(mkAnd(x.T, y.T), rt)
		}
	case token.LOR, token.OR:
		if xs == SBool {
			return scalar(mkOr(x.T, y.T), rt)
		}
	}
	ex.fail("unsupported binary operator %s on %s", op, xs)
	return nil
}

func (ex *Exec) convert(st *State, in *ssa.Convert) *Val {
	x := ex.value(st, in.X)
	from, to := in.X.Type().Underlying(), in.Type().Underlying()
	fs, ts := sortOfType(from), sortOfType(to)
	switch {
	case fs == SInt && ts == SInt:
		return scalar(ex.define(st, "conv", wrapInt(in.Type(), x.T)), in.Type())
	case fs == SString && ts == SSlice:
		// []byte(s): fresh array holding the bytes of s
		ref := ex.alloc(st, "bytes")
		sl, _ := to.(*types.Slice)
		key, comp := ex.elemsComp(st, sl.Elem())
		row := ex.freshConst(st, "bytesrow", elemSortOf(comp.Sort))
		st.setComp(key, ex.define(st, key, mkStore(comp, ref, row)))
		ln := app(SInt, "str.len", x.T)
		res := ex.define(st, "bs", mkSliceT(ref, tZero, ln, ln))
		// bytes(res) == x
		st.assume(mkEq(ex.bytesOf(st, st, res), x.T))
		return scalar(res, in.Type())
	case fs == SSlice && ts == SString:
		return scalar(ex.define(st, "str", ex.bytesOf(st, st, x.T)), in.Type())
	case fs == ts && fs != SAgg:
		n := *x
		n.Typ = in.Type()
		return &n
	}
	ex.fail("unsupported conversion %s -> %s", in.X.Type(), in.Type())
	return nil
}

// bytesOf: the string made of the bytes of a []byte value (uninterpreted over row, off, len).
func (ex *Exec) bytesOf(st *State, hv HeapView, s Term) Term {
	_, comp := ex.elemsComp(hv, types.Typ[types.Uint8])
	f := ex.uninterp("bytes", []Sort{elemSortOf(comp.Sort), SInt, SInt}, SString)
	t := Term{fmt.Sprintf("(%s %s %s %s)", f, mkSelect(comp, sArr(s)).S, sOff(s).S, sLen(s).S), SString}
	if st != nil {
		// instance of the axiom |bytes(row, off, n)| = n
		st.assume(mkEq(app(SInt, "str.len", t), mkIte(app(SBool, ">=", sLen(s), tZero), sLen(s), tZero)))
	}
	return t
}

func (ex *Exec) makeIface(st *State, x *Val, from types.Type, to types.Type) *Val {
	if _, isI := from.Underlying().(*types.Interface); isI {
		n := *x
		n.Typ = to
		return &n
	}
	if x.Fields != nil {
		// struct value boxed into an interface: allocate a copy
		ref := ex.alloc(st, "boxed")
		ex.storeStruct(st, ref, from, x)
		v := &Val{T: mkIfaceT(ex.tagOf(from), ref), Typ: to}
		return v
	}
	so := sortOfType(from)
	if so == SAgg {
		ex.fail("MakeInterface from %s", from)
	}
	var payload Term
	if isPointerLike(from) {
		payload = x.T
	} else {
		b, u := ex.boxFn(so)
		payload = Term{fmt.Sprintf("(%s %s)", b, x.T.S), SInt}
		st.assume(mkEq(Term{fmt.Sprintf("(%s %s)", u, payload.S), so}, x.T))
	}
	v := &Val{T: ex.define(st, "iface", mkIfaceT(ex.tagOf(from), payload)), Typ: to, Clo: x.Clo}
	return v
}

func isPointerLike(t types.Type) bool {
	switch t.Underlying().(type) {
	case *types.Pointer, *types.Map, *types.Chan, *types.Signature:
		return true
	}
	return false
}

func (ex *Exec) stepTypeAssert(st *State, in *ssa.TypeAssert) bool {
	fr := st.frame
	x := ex.value(st, in.X)
	var ok Term
	var res *Val
	if _, isI := in.AssertedType.Underlying().(*types.Interface); isI {
		if in.AssertedType.Underlying().(*types.Interface).NumMethods() == 0 {
			ok = mkNot(mkEq(iTag(x.T), tZero))
		} else {
			p := ex.implPred(in.AssertedType)
			ok = mkAnd(mkNot(mkEq(iTag(x.T), tZero)), Term{fmt.Sprintf("(%s %s)", p, iTag(x.T).S), SBool})
		}
		res = &Val{T: x.T, Typ: in.AssertedType}
	} else {
		ok = mkEq(iTag(x.T), ex.tagOf(in.AssertedType))
		if _, isS := structOf(in.AssertedType); isS {
			res = ex.loadStruct(st, st, iVal(x.T), in.AssertedType)
		} else if isPointerLike(in.AssertedType) {
			res = scalar(ex.define(st, "ta", iVal(x.T)), in.AssertedType)
		} else {
			so := sortOfType(in.AssertedType)
			_, u := ex.boxFn(so)
			res = scalar(ex.define(st, "ta", Term{fmt.Sprintf("(%s %s)", u, iVal(x.T).S), so}), in.AssertedType)
		}
	}
	if in.CommaOk {
		okc := ex.define(st, "ok", ok)
		// on failure the value is the zero value
		var rv *Val
		if res.Fields != nil {
			rv = res // imprecise on failure, never relied upon
		} else {
			rv = scalar(mkIte(okc, res.T, zeroOfSort(res.T.Sort)), in.AssertedType)
		}
		fr.vals[in] = &Val{Typ: in.Type(), Tup: []*Val{rv, scalar(okc, types.Typ[types.Bool])}}
		return true
	}
	ex.safe(st, in, "typeassert", ok, "interface conversion panics: dynamic type is not "+typeKey(in.AssertedType))
	if res.Fields == nil {
		st.assume(ex.wfValue(st, in.AssertedType, res.T))
	}
	fr.vals[in] = res
	return true
}

func (ex *Exec) sliceOp(st *State, in *ssa.Slice) *Val {
	x := ex.value(st, in.X)
	var lo, hi Term
	lo = tZero
	if in.Low != nil {
		lo = ex.value(st, in.Low).T
	}
	switch t := in.X.Type().Underlying().(type) {
	case *types.Basic: // string
		ln := app(SInt, "str.len", x.T)
		hi = ln
		if in.High != nil {
			hi = ex.value(st, in.High).T
		}
		ex.safe(st, in, "slice", mkAnd(app(SBool, "<=", tZero, lo), app(SBool, "<=", lo, hi), app(SBool, "<=", hi, ln)), "slice bounds out of range (string)")
		return scalar(ex.define(st, "substr", app(SString, "str.substr", x.T, lo, app(SInt, "-", hi, lo))), in.Type())
	case *types.Slice:
		hi = sLen(x.T)
		if in.High != nil {
			hi = ex.value(st, in.High).T
		}
		mx := sCap(x.T)
		if in.Max != nil {
			mx = ex.value(st, in.Max).T
		}
		ex.safe(st, in, "slice", mkAnd(app(SBool, "<=", tZero, lo), app(SBool, "<=", lo, hi), app(SBool, "<=", hi, mx), app(SBool, "<=", mx, sCap(x.T))), "slice bounds out of range")
		return scalar(ex.define(st, "sl", mkSliceT(sArr(x.T), addT(sOff(x.T), lo), app(SInt, "-", hi, lo), app(SInt, "-", mx, lo))), in.Type())
	case *types.Pointer: // *[N]T
		arr := t.Elem().Underlying().(*types.Array)
		n := intLit(arr.Len())
		hi = n
		if in.High != nil {
			hi = ex.value(st, in.High).T
		}
		ex.safe(st, in, "slice", mkAnd(app(SBool, "<=", tZero, lo), app(SBool, "<=", lo, hi), app(SBool, "<=", hi, n)), "slice bounds out of range (array)")
		return scalar(ex.define(st, "sl", mkSliceT(x.T, lo, app(SInt, "-", hi, lo), app(SInt, "-", n, lo))), in.Type())
	}
	ex.fail("Slice on %s", in.X.Type())
	return nil
}

func (ex *Exec) lookup(st *State, in *ssa.Lookup) *Val {
	x := ex.value(st, in.X)
	k := ex.value(st, in.Index)
	if sortOfType(in.X.Type()) == SString {
		ex.safe(st, in, "index", mkAnd(app(SBool, "<=", tZero, k.T), app(SBool, "<", k.T, app(SInt, "str.len", x.T))), "string index out of range")
		return scalar(ex.define(st, "byte", app(SInt, "str.to_code", app(SString, "str.at", x.T, k.T))), in.Type())
	}
	mt := in.X.Type().Underlying().(*types.Map)
	ex.lockCheck(st, in, x, false)
	has, v := ex.mapLoad(st, st, mt, x.T, k.T)
	hasD := ex.define(st, "has", has)
	var val *Val
	if v.Fields != nil {
		val = v
	} else {
		// modelling invariant: the value row holds the zero value outside the domain, so no ite is needed
		vd := ex.define(st, "mv", v.T)
		st.assume(ex.wfValue(st, mt.Elem(), vd))
		val = scalar(vd, mt.Elem())
	}
	if in.CommaOk {
		return &Val{Typ: in.Type(), Tup: []*Val{val, scalar(hasD, types.Typ[types.Bool])}}
	}
	return val
}

// String map keys are interned: arrays are indexed by (sk key), an injective image of the string
// (ks is the inverse; see the prelude axiom). Solvers handle Int-indexed arrays with quantifiers far
// better than String-indexed ones.
func mapKeySort(mt *types.Map) Sort {
	if s := sortOfType(mt.Key()); s != SString {
		return s
	}
	return SInt
}

func mapKeyTerm(k Term) Term {
	if k.Sort == SString {
		return Term{"(sk " + k.S + ")", SInt}
	}
	return k
}

func (ex *Exec) mapLoad(st *State, hv HeapView, mt *types.Map, m, k Term) (Term, *Val) {
	k = mapKeyTerm(k)
	dk, vk, _ := mapKeys(mt)
	ks := mapKeySort(mt)
	dom := hv.comp(dk, arraySort(SInt, arraySort(ks, SBool)))
	has := mkSelect(mkSelect(dom, m), k)
	vs := sortOfType(mt.Elem())
	if vs == SAgg {
		ex.fail("map with aggregate values %s", mt)
	}
	vals := hv.comp(vk, arraySort(SInt, arraySort(ks, vs)))
	return has, scalar(mkSelect(mkSelect(vals, m), k), mt.Elem())
}

func (ex *Exec) mapStore(st *State, mt *types.Map, m, k Term, v *Val) {
	k = mapKeyTerm(k)
	dk, vk, ck := mapKeys(mt)
	ks := mapKeySort(mt)
	dom := st.comp(dk, arraySort(SInt, arraySort(ks, SBool)))
	had := ex.define(st, "had", mkSelect(mkSelect(dom, m), k))
	st.setComp(dk, ex.define(st, dk, mkStore(dom, m, mkStore(mkSelect(dom, m), k, tTrue))))
	vs := sortOfType(mt.Elem())
	if vs == SAgg {
		ex.fail("map with aggregate values %s", mt)
	}
	vals := st.comp(vk, arraySort(SInt, arraySort(ks, vs)))
	st.setComp(vk, ex.define(st, vk, mkStore(vals, m, mkStore(mkSelect(vals, m), k, v.T))))
	card := st.comp(ck, arraySort(SInt, SInt))
	st.setComp(ck, ex.define(st, ck, mkStore(card, m, mkIte(had, mkSelect(card, m), app(SInt, "+", mkSelect(card, m), tOne)))))
}

func (ex *Exec) mapDelete(st *State, mt *types.Map, m, k Term) {
	k = mapKeyTerm(k)
	dk, _, ck := mapKeys(mt)
	ks := mapKeySort(mt)
	dom := st.comp(dk, arraySort(SInt, arraySort(ks, SBool)))
	had := ex.define(st, "had", mkSelect(mkSelect(dom, m), k))
	// delete on a nil map is a no-op
	st.setComp(dk, ex.define(st, dk, mkIte(mkEq(m, tZero), dom, mkStore(dom, m, mkStore(mkSelect(dom, m), k, tFalse)))))
	card := st.comp(ck, arraySort(SInt, SInt))
	st.setComp(ck, ex.define(st, ck, mkStore(card, m, mkIte(had, app(SInt, "-", mkSelect(card, m), tOne), mkSelect(card, m)))))
	if vs := sortOfType(mt.Elem()); vs != SAgg {
		_, vk, _ := mapKeys(mt)
		vals := st.comp(vk, arraySort(SInt, arraySort(ks, vs)))
		st.setComp(vk, ex.define(st, vk, mkIte(mkEq(m, tZero), vals, mkStore(vals, m, mkStore(mkSelect(vals, m), k, zeroOfSort(vs))))))
	}
}

func (ex *Exec) mapLen(st *State, hv HeapView, mt *types.Map, m Term) Term {
	_, _, ck := mapKeys(mt)
	card := hv.comp(ck, arraySort(SInt, SInt))
	return mkSelect(card, m)
}

// lockCheck: access to a map read from a guarded field needs the guarding lock (ghost held state).
func (ex *Exec) lockCheck(st *State, in ssa.Instruction, m *Val, write bool) {
	if m.Guard == nil {
		return
	}
	g, ok := ex.ct.Ghosts["held"]
	if !ok {
		return
	}
	held := mkSelect(st.comp("G:held", ex.ghostSort(g, ex.topFn.Pkg.Pkg)), *m.Guard)
	if write {
		ex.oblige(st, "lock", "write@"+ex.instrLabel(in), mkEq(held, intLit(2)), ex.top.Tags, "write to a lock-guarded map needs the exclusive lock", in.Pos())
	} else {
		ex.oblige(st, "lock", "read@"+ex.instrLabel(in), app(SBool, ">=", held, tOne), ex.top.Tags, "read of a lock-guarded map needs the lock", in.Pos())
	}
}

// doReturn: return from the current frame.
func (ex *Exec) doReturn(st *State, rs []*Val) {
	fr := st.frame
	if fr.parent == nil {
		ex.checkExit(st, rs)
		ex.endPath(st)
		return
	}
	// pop
	st.frame = fr.parent
	switch fr.ret {
	case retResume:
		if v, ok := fr.retInst.(ssa.Value); ok {
			var res *Val
			switch len(rs) {
			case 0:
				res = &Val{Typ: v.Type()}
			case 1:
				res = rs[0]
			default:
				res = &Val{Typ: v.Type(), Tup: rs}
			}
			st.frame.vals[v] = res
		}
		ex.runFrom(st, fr.retBlk, fr.retIdx+1)
	case retDefers:
		ex.runFrom(st, fr.retBlk, fr.retIdx)
	case retUnwind:
		ex.unwind(st)
	}
}
