package main

// ReplayResult describes the attempt to reproduce a counterexample on the real code.
type ReplayResult struct {
	Reproduced bool   `json:"reproduced"`
	Reason     string `json:"reason,omitempty"`
	TestFile   string `json:"test_file,omitempty"`
	Command    string `json:"command,omitempty"`
	Output     string `json:"output,omitempty"`
}

func (ex *Exec) tryReplay(o *Obligation, model string, repo string, dir string) *ReplayResult {
	return &ReplayResult{Reproduced: false, Reason: "no replay builder for this obligation class yet"}
}
