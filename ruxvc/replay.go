package main

// Replay of solver counterexamples against the real code.
//
// The model of a failed obligation is turned into a concrete pre-state (arguments, scalar fields
// of the receiver and of pointer arguments, short slices), a generated in-package Go test calls
// the real function through `go test -overlay` (nothing is written into the repository), and the
// failed clause (or "no panic" for safety obligations) is evaluated on what the real code did.

import (
	"context"
	"encoding/json"
	"fmt"
	"go/types"
	"os"
	"os/exec"
	"path/filepath"
	"regexp"
	"strconv"
	"strings"
	"time"

	"golang.org/x/tools/go/ssa"
)

// ReplayResult describes the attempt to reproduce a counterexample on the real code.
type ReplayResult struct {
	Reproduced bool              `json:"reproduced"`
	Reason     string            `json:"reason,omitempty"`
	Candidate  string            `json:"model_kind,omitempty"`
	Inputs     map[string]string `json:"inputs,omitempty"`
	TestFile   string            `json:"test_file,omitempty"`
	TestSource string            `json:"test_source,omitempty"`
	Command    string            `json:"command,omitempty"`
	Output     string            `json:"output,omitempty"`
}

type replayQuery struct {
	name string // rvN
	term Term
	path string // Go l-value or description
}

type replayBuilder struct {
	ex      *Exec
	o       *Obligation
	script  string
	queries []replayQuery
	setup   []string // Go statements, with placeholders {rvN}
	unsup   []string
}

func (rb *replayBuilder) q(t Term, path string) string {
	n := fmt.Sprintf("rv%d", len(rb.queries))
	rb.queries = append(rb.queries, replayQuery{n, t, path})
	return "{" + n + "}"
}

func (rb *replayBuilder) declared(key string) bool {
	return strings.Contains(rb.script, "(declare-const "+h0Name(key)+" ")
}

func goTypeString(t types.Type, pkg *types.Package) string {
	return types.TypeString(t, func(p *types.Package) string {
		if p == pkg {
			return ""
		}
		return p.Name()
	})
}

// structFields emits assignments for the scalar fields of the struct at reference ref.
func (rb *replayBuilder) structFields(lv string, ref Term, st types.Type, pkg *types.Package, depth int) {
	s, _ := structOf(st)
	for i := 0; i < s.NumFields(); i++ {
		f := s.Field(i)
		if f.Name() == "_" {
			continue
		}
		if f.Pkg() != pkg && !f.Exported() {
			continue
		}
		ft := f.Type()
		if _, isS := structOf(ft); isS {
			if depth < 2 {
				rb.structFields(lv+"."+f.Name(), subRef(ref, i), ft, pkg, depth+1)
			}
			continue
		}
		key := fieldKey(st, i)
		if !rb.declared(key) {
			continue
		}
		so := sortOfType(ft)
		comp := Term{h0Name(key), arraySort(SInt, so)}
		switch u := ft.Underlying().(type) {
		case *types.Basic:
			if so == SInt || so == SBool || so == SString {
				rb.setup = append(rb.setup, fmt.Sprintf("%s.%s = %s(%s)", lv, f.Name(), goTypeString(ft, pkg), rb.q(mkSelect(comp, ref), lv+"."+f.Name())))
			}
		case *types.Slice:
			rb.sliceValue(lv+"."+f.Name(), mkSelect(comp, ref), ft, u, pkg, true)
		case *types.Pointer, *types.Map, *types.Interface, *types.Chan:
			// heap objects behind this field cannot be built: refuse the replay if the model needs one
			t := mkSelect(comp, ref)
			if so == SIface {
				t = iTag(t)
			}
			rb.setup = append(rb.setup, fmt.Sprintf("if %s != 0 { panic(\"verif-replay: the model needs an object behind %s.%s that the replay builder cannot construct\") }", rb.q(t, lv+"."+f.Name()+"(nil?)"), lv, f.Name()))
		case *types.Signature:
			// a non-nil function value where the model has one (its behaviour is a no-op)
			if u.Results().Len() == 0 {
				var ps []string
				for k := 0; k < u.Params().Len(); k++ {
					ps = append(ps, "_ "+goTypeString(u.Params().At(k).Type(), pkg))
				}
				rb.setup = append(rb.setup, fmt.Sprintf("if %s != 0 { %s.%s = %s(func(%s) {}) }", rb.q(mkSelect(comp, ref), lv+"."+f.Name()+"(non-nil?)"), lv, f.Name(), goTypeString(ft, pkg), strings.Join(ps, ", ")))
			}
		}
	}
}

func (rb *replayBuilder) sliceValue(lv string, sl Term, t types.Type, u *types.Slice, pkg *types.Package, assign bool) {
	eso := sortOfType(u.Elem())
	if eso != SInt && eso != SString && eso != SBool {
		rb.unsup = append(rb.unsup, lv+" (slice of "+u.Elem().String()+")")
		return
	}
	if _, isBasic := u.Elem().Underlying().(*types.Basic); !isBasic {
		rb.unsup = append(rb.unsup, lv)
		return
	}
	ekey := elemKey(u.Elem())
	ln := rb.q(sLen(sl), "len("+lv+")")
	cp := rb.q(sCap(sl), "cap("+lv+")")
	var elems []string
	if rb.declared(ekey) {
		comp := Term{h0Name(ekey), arraySort(SInt, arraySort(SInt, eso))}
		for i := 0; i < 8; i++ {
			elems = append(elems, fmt.Sprintf("%s(%s)", goTypeString(u.Elem(), pkg), rb.q(mkSelect(mkSelect(comp, sArr(sl)), app(SInt, "+", sOff(sl), intLit(int64(i)))), fmt.Sprintf("%s[%d]", lv, i))))
		}
	}
	op := "="
	if !assign {
		op = ":="
	}
	rb.setup = append(rb.setup, fmt.Sprintf("%s %s verifMkSlice[%s](%s, %s, []%s{%s})", lv, op, goTypeString(u.Elem(), pkg), ln, cp, goTypeString(u.Elem(), pkg), strings.Join(elems, ", ")))
	if t != u {
		// named slice type: convert
		rb.setup[len(rb.setup)-1] = fmt.Sprintf("%s %s %s(verifMkSlice[%s](%s, %s, []%s{%s}))", lv, op, goTypeString(t, pkg), goTypeString(u.Elem(), pkg), ln, cp, goTypeString(u.Elem(), pkg), strings.Join(elems, ", "))
	}
}

func (ex *Exec) tryReplay(o *Obligation, _ string, repo string, dir string) *ReplayResult {
	res := &ReplayResult{}
	fn := ex.ld.funcs[o.Fn]
	c := ex.ct.Funcs[o.Fn]
	pt := ex.paramVals[o.Fn]
	if fn == nil || c == nil || pt == nil {
		res.Reason = "no function / parameter record for this obligation"
		return res
	}
	if fn.Parent() != nil || len(fn.FreeVars) > 0 {
		res.Reason = "closure bodies are not replayed (free variables)"
		return res
	}
	if o.Class != "safe" && o.Class != "ensures" {
		res.Reason = "obligation class " + o.Class + " has no replay (only safe/ensures obligations of the function itself are replayed)"
		return res
	}
	pkg := fn.Pkg.Pkg
	rb := &replayBuilder{ex: ex, o: o, script: ex.script(o, false)}
	names := ex.paramNames(fn, c)
	var callArgs []string
	recv := ""
	for i, p := range fn.Params {
		v := pt[i]
		name := "a_" + names[i]
		isRecv := i == 0 && fn.Signature.Recv() != nil
		switch u := p.Type().Underlying().(type) {
		case *types.Basic:
			so := sortOfType(p.Type())
			if so != SInt && so != SBool && so != SString {
				res.Reason = "parameter " + names[i] + " of unsupported basic type"
				return res
			}
			rb.setup = append(rb.setup, fmt.Sprintf("%s := %s(%s)", name, goTypeString(p.Type(), pkg), rb.q(v.T, names[i])))
		case *types.Pointer:
			if _, isS := structOf(u.Elem()); !isS {
				res.Reason = "parameter " + names[i] + ": pointer to non-struct"
				return res
			}
			rb.setup = append(rb.setup, fmt.Sprintf("%s := new(%s)", name, goTypeString(u.Elem(), pkg)))
			rb.structFields(name, v.T, u.Elem(), pkg, 0)
		case *types.Slice:
			rb.sliceValue(name, v.T, p.Type(), u, pkg, false)
		default:
			if v.Fields != nil {
				// struct value parameter
				rb.setup = append(rb.setup, fmt.Sprintf("var %s %s", name, goTypeString(p.Type(), pkg)))
				s, _ := structOf(p.Type())
				for k := 0; k < s.NumFields(); k++ {
					so := sortOfType(s.Field(k).Type())
					if _, isB := s.Field(k).Type().Underlying().(*types.Basic); isB && (so == SInt || so == SBool || so == SString) {
						rb.setup = append(rb.setup, fmt.Sprintf("%s.%s = %s(%s)", name, s.Field(k).Name(), goTypeString(s.Field(k).Type(), pkg), rb.q(v.Fields[k].T, names[i]+"."+s.Field(k).Name())))
					}
				}
			} else {
				rb.setup = append(rb.setup, fmt.Sprintf("var %s %s // not taken from the model", name, goTypeString(p.Type(), pkg)))
				rb.unsup = append(rb.unsup, names[i]+" ("+p.Type().String()+")")
			}
		}
		if isRecv {
			recv = name
		} else {
			callArgs = append(callArgs, name)
		}
	}
	// ask the solver for the values
	var sb strings.Builder
	sb.WriteString(rb.script)
	sb.WriteString("\n")
	var qn []string
	for _, q := range rb.queries {
		fmt.Fprintf(&sb, "(define-fun %s () %s %s)\n", q.name, q.term.Sort, q.term.S)
		qn = append(qn, q.name)
	}
	// the check-sat must come after the definitions: rebuild script order
	full := strings.Replace(sb.String(), "(check-sat)\n", "", 1) + "(check-sat)\n"
	if len(qn) > 0 {
		full += "(get-value (" + strings.Join(qn, " ") + "))\n"
	}
	tmp, _ := os.MkdirTemp("", "ruxvcreplay")
	defer os.RemoveAll(tmp)
	vals := map[string]string{}
	got := false
	for _, sp := range solvers {
		st, out, _ := runSolver(context.Background(), sp, full, tmp, "replay", 10)
		if st == "sat" {
			vals = parseGetValue(out)
			got = true
			break
		}
	}
	if !got {
		// candidate input from the quantifier-free part of the query (assumptions with quantifiers dropped);
		// whether it really fails is decided by running it on the real code below
		var rl []string
		for _, l := range strings.Split(full, "\n") {
			if strings.Contains(l, "(forall ") || strings.Contains(l, "(exists ") {
				if !strings.HasPrefix(l, "(assert (not ") {
					continue
				}
			}
			rl = append(rl, l)
		}
		st, out, _ := runSolver(context.Background(), solvers[0], strings.Join(rl, "\n"), tmp, "replayqf", 10)
		if st == "sat" {
			vals = parseGetValue(out)
			got = true
			res.Candidate = "quantifier-free candidate (assumptions with quantifiers dropped)"
		}
	}
	if !got {
		res.Reason = "no solver produced a model with values"
		return res
	}
	res.Inputs = map[string]string{}
	subst := func(s string) (string, bool) {
		ok := true
		out := regexp.MustCompile(`\{rv[0-9]+\}`).ReplaceAllStringFunc(s, func(m string) string {
			n := m[1 : len(m)-1]
			v, has := vals[n]
			if !has {
				ok = false
				return "0"
			}
			g, good := smtValueToGo(v)
			if !good {
				ok = false
				return "0"
			}
			return g
		})
		return out, ok
	}
	for _, q := range rb.queries {
		if v, ok := vals[q.name]; ok {
			if g, good := smtValueToGo(v); good {
				res.Inputs[q.path] = g
			}
		}
	}
	var setup []string
	for _, l := range rb.setup {
		g, ok := subst(l)
		if !ok {
			res.Reason = "model value could not be converted: " + l
			return res
		}
		setup = append(setup, g)
	}
	// call
	sig := fn.Signature
	var resNames []string
	rn := resultNames(sig, c)
	for i := 0; i < sig.Results().Len(); i++ {
		resNames = append(resNames, "r_"+rn[i])
	}
	call := fn.Name() + "(" + strings.Join(callArgs, ", ") + ")"
	if recv != "" {
		if _, isPtr := fn.Params[0].Type().Underlying().(*types.Pointer); isPtr {
			call = recv + "." + call
		} else {
			call = recv + "." + call
		}
	}
	if sig.Variadic() && len(callArgs) > 0 {
		call = strings.TrimSuffix(call, ")") + "...)"
	}
	// clause in Go (ensures only)
	clauseGo := ""
	var olds []string
	if o.Class == "ensures" {
		cl := findClause(c, o.Name)
		if cl != nil {
			tr := &goTranslator{ex: ex, pkg: pkg, params: map[string]string{}, c: c}
			for i := range fn.Params {
				tr.params[names[i]] = "a_" + names[i]
			}
			for i := range resNames {
				tr.params[rn[i]] = resNames[i]
			}
			g, err := tr.expr(cl.E)
			if err == nil {
				clauseGo = g
				olds = tr.olds
			} else {
				res.Reason = "clause not translatable to Go: " + err.Error()
			}
		}
	}
	var src strings.Builder
	fmt.Fprintf(&src, "package %s\n\nimport (\n\t\"fmt\"\n\t\"strings\"\n\t\"testing\"\n)\n\nvar _ = strings.Index\n\n", pkg.Name())
	src.WriteString("func verifMkSlice[T any](n, c int, elems []T) []T {\n\tif n < 0 || n > 64 || c < n || c > 128 {\n\t\tpanic(\"verif-replay: slice shape outside the replayable range\")\n\t}\n\ts := make([]T, n, c)\n\tfor i := 0; i < n && i < len(elems); i++ {\n\t\ts[i] = elems[i]\n\t}\n\treturn s\n}\n\n")
	src.WriteString("func TestVerifReplay(t *testing.T) {\n")
	for _, l := range setup {
		src.WriteString("\t" + l + "\n")
	}
	for i, od := range olds {
		fmt.Fprintf(&src, "\told%d := %s\n", i, od)
	}
	for _, r := range resNames {
		_ = r
	}
	for i := 0; i < sig.Results().Len(); i++ {
		fmt.Fprintf(&src, "\tvar %s %s\n", resNames[i], goTypeString(sig.Results().At(i).Type(), pkg))
	}
	src.WriteString("\tpanicked := false\n\tvar pv any\n\tfunc() {\n\t\tdefer func() {\n\t\t\tif e := recover(); e != nil {\n\t\t\t\tpanicked, pv = true, e\n\t\t\t}\n\t\t}()\n")
	if len(resNames) > 0 {
		fmt.Fprintf(&src, "\t\t%s = %s\n", strings.Join(resNames, ", "), call)
	} else {
		fmt.Fprintf(&src, "\t\t%s\n", call)
	}
	src.WriteString("\t}()\n")
	src.WriteString("\tfmt.Printf(\"REPLAY panicked=%v panic=%v\\n\", panicked, pv)\n")
	for _, r := range resNames {
		fmt.Fprintf(&src, "\tfmt.Printf(\"REPLAY result %s=%%#v\\n\", %s)\n", r, r)
	}
	for _, r := range resNames {
		fmt.Fprintf(&src, "\t_ = %s\n", r)
	}
	for i, p := range fn.Params {
		_ = p
		fmt.Fprintf(&src, "\t_ = a_%s\n", names[i])
	}
	if clauseGo != "" {
		fmt.Fprintf(&src, "\tif !panicked {\n\t\tfmt.Printf(\"REPLAY clause=%%v\\n\", %s)\n\t}\n", clauseGo)
	}
	src.WriteString("}\n")
	os.MkdirAll(dir, 0o755)
	testFile := filepath.Join(dir, sanitizeFile(o.Name)+"_replay_test.go")
	os.WriteFile(testFile, []byte(src.String()), 0o644)
	res.TestFile = testFile
	res.TestSource = src.String()
	// run through an overlay
	pkgDir := filepath.Join(repo, strings.TrimPrefix(strings.TrimPrefix(pkg.Path(), modulePath), "/"))
	ov := map[string]map[string]string{"Replace": {filepath.Join(pkgDir, "zz_verif_replay_test.go"): testFile}}
	ovb, _ := json.Marshal(ov)
	ovFile := filepath.Join(dir, sanitizeFile(o.Name)+"_overlay.json")
	os.WriteFile(ovFile, ovb, 0o644)
	cmdline := fmt.Sprintf("cd %s && go test -overlay %s -vet=off -count=1 -timeout 60s -v -run '^TestVerifReplay$' .", pkgDir, ovFile)
	res.Command = cmdline
	ctx, cancel := context.WithTimeout(context.Background(), 180*time.Second)
	defer cancel()
	cmd := exec.CommandContext(ctx, "go", "test", "-overlay", ovFile, "-vet=off", "-count=1", "-timeout", "60s", "-v", "-run", "^TestVerifReplay$", ".")
	cmd.Dir = pkgDir
	cmd.Env = append(os.Environ(), "GOFLAGS=-mod=mod", "GOPROXY=off", "GOSUMDB=off", "GOTOOLCHAIN=local")
	out, _ := cmd.CombinedOutput()
	var keep []string
	for _, l := range strings.Split(string(out), "\n") {
		if strings.HasPrefix(l, "REPLAY") || strings.HasPrefix(l, "--- ") || strings.HasPrefix(l, "FAIL") || strings.HasPrefix(l, "ok") || strings.Contains(l, "_test.go:") {
			keep = append(keep, l)
		}
	}
	res.Output = strings.Join(keep, "\n")
	panicked := strings.Contains(res.Output, "REPLAY panicked=true")
	ran := strings.Contains(res.Output, "REPLAY panicked=")
	switch {
	case !ran:
		res.Reason = "the generated test did not run (see output)"
	case strings.Contains(res.Output, "verif-replay: slice shape"):
		res.Reason = "the model uses a slice shape outside the replayable range"
	case strings.Contains(res.Output, "verif-replay: the model needs"):
		res.Reason = "the model's pre-state contains heap objects the replay builder cannot construct"
	case o.Class == "safe":
		res.Reproduced = panicked
		if !panicked {
			res.Reason = "the real code did not panic on the model's input (the abstraction of an assumed callee is coarser than the real callee)"
		}
	case o.Class == "ensures":
		if panicked {
			res.Reason = "the real code panicked instead of returning"
		} else if strings.Contains(res.Output, "REPLAY clause=false") {
			res.Reproduced = true
		} else if strings.Contains(res.Output, "REPLAY clause=true") {
			res.Reason = "the clause holds on the real code for the model's input (the model relies on an abstracted callee or on state outside the replayed part)"
		} else if res.Reason == "" {
			res.Reason = "clause not evaluated"
		}
	}
	if len(rb.unsup) > 0 && !res.Reproduced {
		res.Reason += "; not taken from the model: " + strings.Join(rb.unsup, ", ")
	}
	return res
}

func findClause(c *Contract, oblName string) *Clause {
	i := strings.Index(oblName, "#ensures:")
	if i < 0 {
		return nil
	}
	label := oblName[i+len("#ensures:"):]
	if j := strings.Index(label, "/"); j >= 0 {
		label = label[:j]
	}
	for k, e := range c.Ensures {
		if clauseLabel(e, k) == label {
			return e
		}
	}
	return nil
}

// parseGetValue parses "((rv0 v0) (rv1 v1) ...)" possibly spread over lines.
func parseGetValue(out string) map[string]string {
	res := map[string]string{}
	i := strings.Index(out, "((")
	if i < 0 {
		return res
	}
	s := out[i+1:]
	// iterate over top-level pairs
	depth := 0
	start := -1
	inStr := false
	for k := 0; k < len(s); k++ {
		c := s[k]
		if inStr {
			if c == '"' {
				if k+1 < len(s) && s[k+1] == '"' {
					k++
					continue
				}
				inStr = false
			}
			continue
		}
		switch c {
		case '"':
			inStr = true
		case '(':
			if depth == 0 {
				start = k
			}
			depth++
		case ')':
			depth--
			if depth == 0 && start >= 0 {
				pair := s[start+1 : k]
				sp := strings.IndexAny(pair, " \n")
				if sp > 0 {
					res[pair[:sp]] = strings.TrimSpace(pair[sp+1:])
				}
				start = -1
			}
			if depth < 0 {
				return res
			}
		}
	}
	return res
}

var reNeg = regexp.MustCompile(`^\(-\s*([0-9]+)\)$`)
var reUni = regexp.MustCompile(`\\u\{([0-9a-fA-F]+)\}|\\u([0-9a-fA-F]{4})|\\x([0-9a-fA-F]{2})`)

func smtValueToGo(v string) (string, bool) {
	v = strings.TrimSpace(v)
	switch {
	case v == "true" || v == "false":
		return v, true
	case reNeg.MatchString(v):
		return "-" + reNeg.FindStringSubmatch(v)[1], true
	case strings.HasPrefix(v, "\""):
		body := v[1 : len(v)-1]
		body = strings.ReplaceAll(body, `""`, `"`)
		var bs []byte
		for len(body) > 0 {
			loc := reUni.FindStringSubmatchIndex(body)
			if loc == nil || loc[0] != 0 {
				if loc == nil {
					bs = append(bs, body...)
					break
				}
				bs = append(bs, body[:loc[0]]...)
				body = body[loc[0]:]
				continue
			}
			m := reUni.FindStringSubmatch(body)
			hex := m[1] + m[2] + m[3]
			n, _ := strconv.ParseInt(hex, 16, 32)
			if n > 255 {
				return "", false
			}
			bs = append(bs, byte(n))
			body = body[loc[1]:]
		}
		return strconv.Quote(string(bs)), true
	}
	if _, err := strconv.ParseInt(v, 10, 64); err == nil {
		return v, true
	}
	return "", false
}

// ---------------------------------------------------------------------------
// spec clause -> Go expression (subset)

type goTranslator struct {
	ex     *Exec
	pkg    *types.Package
	params map[string]string
	c      *Contract
	olds   []string
	inOld  bool
	depth  int
	bound  map[string]string
}

func (tr *goTranslator) expr(e Expr) (string, error) {
	switch x := e.(type) {
	case *EInt:
		return x.V, nil
	case *EStr:
		return strconv.Quote(x.V), nil
	case *EIdent:
		if g, ok := tr.bound[x.Name]; ok {
			return g, nil
		}
		if g, ok := tr.params[x.Name]; ok {
			return g, nil
		}
		switch x.Name {
		case "nil", "true", "false":
			return x.Name, nil
		}
		if tr.pkg.Scope().Lookup(x.Name) != nil {
			return x.Name, nil
		}
		return "", fmt.Errorf("identifier %s", x.Name)
	case *EOld:
		if tr.inOld {
			return tr.expr(x.X)
		}
		tr.inOld = true
		g, err := tr.expr(x.X)
		tr.inOld = false
		if err != nil {
			return "", err
		}
		tr.olds = append(tr.olds, g)
		return fmt.Sprintf("old%d", len(tr.olds)-1), nil
	case *EUn:
		g, err := tr.expr(x.X)
		if err != nil {
			return "", err
		}
		if x.Op == "&" {
			return "(&" + g + ")", nil
		}
		return "(" + x.Op + g + ")", nil
	case *EBin:
		a, err := tr.expr(x.X)
		if err != nil {
			return "", err
		}
		b, err := tr.expr(x.Y)
		if err != nil {
			return "", err
		}
		switch x.Op {
		case "==>":
			return "(!(" + a + ") || (" + b + "))", nil
		case "<==>":
			return "((" + a + ") == (" + b + "))", nil
		case "++":
			return "(" + a + " + " + b + ")", nil
		case "in":
			return "func() bool { _, ok := " + b + "[" + a + "]; return ok }()", nil
		}
		return "(" + a + " " + x.Op + " " + b + ")", nil
	case *ECond:
		c, err := tr.expr(x.C)
		if err != nil {
			return "", err
		}
		a, err := tr.expr(x.A)
		if err != nil {
			return "", err
		}
		b, err := tr.expr(x.B)
		if err != nil {
			return "", err
		}
		return "func() int { if " + c + " { return int(" + a + ") }; return int(" + b + ") }()", nil
	case *EField:
		a, err := tr.expr(x.X)
		if err != nil {
			return "", err
		}
		return a + "." + x.Name, nil
	case *EIndex:
		a, err := tr.expr(x.X)
		if err != nil {
			return "", err
		}
		b, err := tr.expr(x.I)
		if err != nil {
			return "", err
		}
		return a + "[" + b + "]", nil
	case *ESlice:
		a, err := tr.expr(x.X)
		if err != nil {
			return "", err
		}
		lo, hi := "", ""
		if x.Lo != nil {
			if lo, err = tr.expr(x.Lo); err != nil {
				return "", err
			}
		}
		if x.Hi != nil {
			if hi, err = tr.expr(x.Hi); err != nil {
				return "", err
			}
		}
		return a + "[" + lo + ":" + hi + "]", nil
	case *EQuant:
		// bounded quantifier over int of the shape  lo <= i && i < hi ==> body
		if len(x.Vars) == 1 && x.Vars[0].Type == "int" && x.Forall {
			if imp, ok := x.Body.(*EBin); ok && imp.Op == "==>" {
				if rng, ok := imp.X.(*EBin); ok && rng.Op == "&&" {
					lo, ok1 := rng.X.(*EBin)
					hi, ok2 := rng.Y.(*EBin)
					if ok1 && ok2 && lo.Op == "<=" && hi.Op == "<" {
						v := x.Vars[0].Name
						if tr.bound == nil {
							tr.bound = map[string]string{}
						}
						tr.bound[v] = "q_" + v
						loG, e1 := tr.expr(lo.X)
						hiG, e2 := tr.expr(hi.Y)
						body, e3 := tr.expr(imp.Y)
						delete(tr.bound, v)
						if e1 == nil && e2 == nil && e3 == nil {
							return fmt.Sprintf("func() bool { for q_%s := int(%s); q_%s < int(%s); q_%s++ { if !(%s) { return false } }; return true }()", v, loG, v, hiG, v, body), nil
						}
					}
				}
			}
		}
		return "", fmt.Errorf("quantifier")
	case *ECall:
		if sf, ok := tr.ex.ct.Specs[x.Fn]; ok {
			if tr.depth > 10 {
				return "", fmt.Errorf("spec recursion")
			}
			// substitute arguments
			saved := tr.bound
			nb := map[string]string{}
			for k, v := range saved {
				nb[k] = v
			}
			for i, p := range sf.Params {
				g, err := tr.expr(x.Args[i])
				if err != nil {
					return "", err
				}
				nb[p.Name] = g
			}
			tr.bound = nb
			tr.depth++
			g, err := tr.expr(sf.Body)
			tr.depth--
			tr.bound = saved
			return g, err
		}
		var args []string
		for _, a := range x.Args {
			if _, isT := a.(*EType); isT {
				return "", fmt.Errorf("type argument in %s", x.Fn)
			}
			g, err := tr.expr(a)
			if err != nil {
				return "", err
			}
			args = append(args, g)
		}
		switch x.Fn {
		case "len", "cap", "min", "max":
			return x.Fn + "(" + strings.Join(args, ", ") + ")", nil
		case "at":
			return "int(" + args[0] + "[" + args[1] + "])", nil
		case "substr":
			return args[0] + "[" + args[1] + ":" + args[1] + "+" + args[2] + "]", nil
		case "indexof":
			return "strings.Index(" + args[0] + ", " + args[1] + ")", nil
		case "contains":
			return "strings.Contains(" + args[0] + ", " + args[1] + ")", nil
		case "prefixof":
			return "strings.HasPrefix(" + args[1] + ", " + args[0] + ")", nil
		case "suffixof":
			return "strings.HasSuffix(" + args[1] + ", " + args[0] + ")", nil
		case "int8":
			return "int8(" + args[0] + ")", nil
		}
		return "", fmt.Errorf("function %s (ghost state and model functions are not observable on the real code)", x.Fn)
	}
	return "", fmt.Errorf("expression %s", e)
}

var _ = ssa.BuilderMode(0)
