package main

// Spec expression language: lexer, parser and AST.
//
// Go-shaped expressions plus: old(e), forall/exists x T :: e, ==>, <==>, ++,
// `k in m`, c ? a : b, e[a:b].

import (
	"fmt"
	"strconv"
	"strings"
	"unicode"
)

type tokKind int

const (
	tEOF tokKind = iota
	tIdent
	tInt
	tStr
	tOp
)

type stok struct {
	k   tokKind
	s   string
	pos int
}

func lexSpec(src string) ([]stok, error) {
	var out []stok
	i := 0
	for i < len(src) {
		c := src[i]
		switch {
		case c == ' ' || c == '\t' || c == '\n' || c == '\r':
			i++
		case unicode.IsLetter(rune(c)) || c == '_' || c == '$':
			j := i + 1
			for j < len(src) && (unicode.IsLetter(rune(src[j])) || unicode.IsDigit(rune(src[j])) || src[j] == '_' || src[j] == '$') {
				j++
			}
			out = append(out, stok{tIdent, src[i:j], i})
			i = j
		case c >= '0' && c <= '9':
			j := i + 1
			for j < len(src) && (src[j] >= '0' && src[j] <= '9') {
				j++
			}
			out = append(out, stok{tInt, src[i:j], i})
			i = j
		case c == '"':
			j := i + 1
			for j < len(src) && src[j] != '"' {
				if src[j] == '\\' {
					j++
				}
				j++
			}
			if j >= len(src) {
				return nil, fmt.Errorf("unterminated string at %d", i)
			}
			s, err := strconv.Unquote(src[i : j+1])
			if err != nil {
				return nil, fmt.Errorf("bad string %s: %v", src[i:j+1], err)
			}
			out = append(out, stok{tStr, s, i})
			i = j + 1
		case c == '`':
			j := i + 1
			for j < len(src) && src[j] != '`' {
				j++
			}
			if j >= len(src) {
				return nil, fmt.Errorf("unterminated raw string at %d", i)
			}
			out = append(out, stok{tStr, src[i+1 : j], i})
			i = j + 1
		case c == '\'':
			// byte literal 'x'
			j := i + 1
			for j < len(src) && src[j] != '\'' {
				if src[j] == '\\' {
					j++
				}
				j++
			}
			if j >= len(src) {
				return nil, fmt.Errorf("unterminated char at %d", i)
			}
			r, _, _, err := strconv.UnquoteChar(src[i+1:j], '\'')
			if err != nil {
				return nil, err
			}
			out = append(out, stok{tInt, strconv.Itoa(int(r)), i})
			i = j + 1
		default:
			ops := []string{"<==>", "==>", "::", "++", "==", "!=", "<=", ">=", "&&", "||", "+", "-", "*", "/", "%", "<", ">", "!", "(", ")", "[", "]", ",", ".", ":", "?", "{", "}", "&"}
			matched := false
			for _, op := range ops {
				if strings.HasPrefix(src[i:], op) {
					out = append(out, stok{tOp, op, i})
					i += len(op)
					matched = true
					break
				}
			}
			if !matched {
				return nil, fmt.Errorf("unexpected character %q at %d in %q", c, i, src)
			}
		}
	}
	out = append(out, stok{tEOF, "", len(src)})
	return out, nil
}

// Expr is a spec AST node.
type Expr interface{ String() string }

type (
	EIdent struct{ Name string }
	EInt   struct{ V string }
	EStr   struct{ V string }
	EUn    struct {
		Op string
		X  Expr
	}
	EBin struct {
		Op   string
		X, Y Expr
	}
	ECall struct {
		Fn   string
		Args []Expr
	}
	EField struct {
		X    Expr
		Name string
	}
	EIndex struct{ X, I Expr }
	ESlice struct{ X, Lo, Hi Expr } // Lo/Hi may be nil
	EOld   struct{ X Expr }
	EQuant struct {
		Forall  bool
		Vars    []QVar
		Body    Expr
		Witness Expr // exists v T by w :: body  -- when the formula is to be proved, body[v := w] is proved instead
	}
	ECond struct{ C, A, B Expr }
	// EType is a type expression used as an argument of hastype/implements/as
	EType struct{ T string }
)

type QVar struct {
	Name string
	Type string // spec type syntax
}

func (e *EIdent) String() string { return e.Name }
func (e *EInt) String() string   { return e.V }
func (e *EStr) String() string   { return strconv.Quote(e.V) }
func (e *EUn) String() string    { return e.Op + e.X.String() }
func (e *EBin) String() string   { return "(" + e.X.String() + " " + e.Op + " " + e.Y.String() + ")" }
func (e *ECall) String() string {
	var a []string
	for _, x := range e.Args {
		a = append(a, x.String())
	}
	return e.Fn + "(" + strings.Join(a, ", ") + ")"
}
func (e *EField) String() string { return e.X.String() + "." + e.Name }
func (e *EIndex) String() string { return e.X.String() + "[" + e.I.String() + "]" }
func (e *ESlice) String() string {
	lo, hi := "", ""
	if e.Lo != nil {
		lo = e.Lo.String()
	}
	if e.Hi != nil {
		hi = e.Hi.String()
	}
	return e.X.String() + "[" + lo + ":" + hi + "]"
}
func (e *EOld) String() string { return "old(" + e.X.String() + ")" }
func (e *EQuant) String() string {
	q := "exists"
	if e.Forall {
		q = "forall"
	}
	var vs []string
	for _, v := range e.Vars {
		vs = append(vs, v.Name+" "+v.Type)
	}
	return "(" + q + " " + strings.Join(vs, ", ") + " :: " + e.Body.String() + ")"
}
func (e *ECond) String() string {
	return "(" + e.C.String() + " ? " + e.A.String() + " : " + e.B.String() + ")"
}
func (e *EType) String() string { return e.T }

type specParser struct {
	toks []stok
	p    int
	src  string
}

func parseSpecExpr(src string) (e Expr, err error) {
	toks, err := lexSpec(src)
	if err != nil {
		return nil, err
	}
	sp := &specParser{toks: toks, src: src}
	defer func() {
		if r := recover(); r != nil {
			if pe, ok := r.(specParseErr); ok {
				err = fmt.Errorf("%s (in %q)", string(pe), src)
				return
			}
			panic(r)
		}
	}()
	e = sp.expr(0)
	if sp.peek().k != tEOF {
		sp.fail("unexpected %q", sp.peek().s)
	}
	return e, nil
}

type specParseErr string

func (sp *specParser) fail(f string, a ...any) {
	panic(specParseErr(fmt.Sprintf("spec parse error at %d: ", sp.peek().pos) + fmt.Sprintf(f, a...)))
}
func (sp *specParser) peek() stok { return sp.toks[sp.p] }
func (sp *specParser) next() stok { t := sp.toks[sp.p]; sp.p++; return t }
func (sp *specParser) isOp(s string) bool {
	t := sp.peek()
	return t.k == tOp && t.s == s
}
func (sp *specParser) expect(s string) {
	if !sp.isOp(s) {
		sp.fail("expected %q, got %q", s, sp.peek().s)
	}
	sp.p++
}

// precedence table (higher binds tighter)
var binPrec = map[string]int{
	"<==>": 1, "==>": 2, "||": 4, "&&": 5,
	"==": 6, "!=": 6, "<": 6, "<=": 6, ">": 6, ">=": 6, "in": 6,
	"+": 7, "-": 7, "++": 7,
	"*": 8, "/": 8, "%": 8,
}

func (sp *specParser) expr(minPrec int) Expr {
	lhs := sp.unary()
	for {
		t := sp.peek()
		op := ""
		if t.k == tOp {
			op = t.s
		} else if t.k == tIdent && t.s == "in" {
			op = "in"
		}
		if op == "?" && minPrec <= 0 {
			sp.p++
			a := sp.expr(0)
			sp.expect(":")
			b := sp.expr(0)
			lhs = &ECond{lhs, a, b}
			continue
		}
		prec, ok := binPrec[op]
		if !ok || prec < minPrec {
			return lhs
		}
		sp.p++
		var rhs Expr
		if op == "==>" || op == "<==>" {
			rhs = sp.expr(prec) // right assoc
		} else {
			rhs = sp.expr(prec + 1)
		}
		lhs = &EBin{op, lhs, rhs}
	}
}

func (sp *specParser) unary() Expr {
	if sp.isOp("!") {
		sp.p++
		return &EUn{"!", sp.unary()}
	}
	if sp.isOp("-") {
		sp.p++
		return &EUn{"-", sp.unary()}
	}
	if sp.isOp("&") {
		sp.p++
		return &EUn{"&", sp.unary()}
	}
	if sp.isOp("*") {
		// type expression like *responseWriter used as argument
		sp.p++
		t := sp.typeExpr()
		return &EType{"*" + t}
	}
	return sp.postfix(sp.primary())
}

func (sp *specParser) typeExpr() string {
	if sp.isOp("*") {
		sp.p++
		return "*" + sp.typeExpr()
	}
	if sp.isOp("[") {
		sp.p++
		sp.expect("]")
		return "[]" + sp.typeExpr()
	}
	t := sp.next()
	if t.k != tIdent {
		sp.fail("expected type name, got %q", t.s)
	}
	name := t.s
	for sp.isOp(".") || sp.isOp("/") {
		// allow pkg.Name and path/pkg.Name
		op := sp.next().s
		t2 := sp.next()
		if t2.k != tIdent {
			sp.fail("expected identifier in type")
		}
		name += op + t2.s
	}
	return name
}

func (sp *specParser) primary() Expr {
	t := sp.next()
	switch t.k {
	case tInt:
		return &EInt{t.s}
	case tStr:
		return &EStr{t.s}
	case tIdent:
		switch t.s {
		case "old":
			sp.expect("(")
			x := sp.expr(0)
			sp.expect(")")
			return &EOld{x}
		case "forall", "exists":
			var vars []QVar
			for {
				n := sp.next()
				if n.k != tIdent {
					sp.fail("expected quantified variable name")
				}
				ty := sp.typeExpr()
				vars = append(vars, QVar{n.s, ty})
				if sp.isOp(",") {
					sp.p++
					continue
				}
				break
			}
			var wit Expr
			if pk := sp.peek(); pk.k == tIdent && pk.s == "by" && t.s == "exists" && len(vars) == 1 {
				sp.p++
				wit = sp.expr(0)
			}
			sp.expect("::")
			body := sp.expr(0)
			return &EQuant{t.s == "forall", vars, body, wit}
		}
		if sp.isOp("(") {
			sp.p++
			var args []Expr
			for !sp.isOp(")") {
				args = append(args, sp.expr(0))
				if sp.isOp(",") {
					sp.p++
				} else {
					break
				}
			}
			sp.expect(")")
			return &ECall{t.s, args}
		}
		return &EIdent{t.s}
	case tOp:
		if t.s == "(" {
			e := sp.expr(0)
			sp.expect(")")
			return e
		}
		if t.s == "[" { // []T type expr
			sp.p--
			return &EType{sp.typeExpr()}
		}
	}
	sp.fail("unexpected stok %q", t.s)
	return nil
}

func (sp *specParser) postfix(e Expr) Expr {
	for {
		switch {
		case sp.isOp("."):
			sp.p++
			n := sp.next()
			if n.k != tIdent {
				sp.fail("expected field name")
			}
			// package-qualified call: pkg.Fn(args)
			if id, ok := e.(*EIdent); ok && sp.isOp("(") {
				sp.p++
				var args []Expr
				for !sp.isOp(")") {
					args = append(args, sp.expr(0))
					if sp.isOp(",") {
						sp.p++
					} else {
						break
					}
				}
				sp.expect(")")
				e = &ECall{id.Name + "." + n.s, args}
				continue
			}
			e = &EField{e, n.s}
		case sp.isOp("["):
			sp.p++
			var lo, hi Expr
			if sp.isOp(":") {
				sp.p++
				if !sp.isOp("]") {
					hi = sp.expr(0)
				}
				sp.expect("]")
				e = &ESlice{e, nil, hi}
				continue
			}
			lo = sp.expr(0)
			if sp.isOp(":") {
				sp.p++
				if !sp.isOp("]") {
					hi = sp.expr(0)
				}
				sp.expect("]")
				e = &ESlice{e, lo, hi}
				continue
			}
			sp.expect("]")
			e = &EIndex{e, lo}
		default:
			return e
		}
	}
}
