package main

import (
	"fmt"
	"go/types"
	"sort"
	"strings"

	"golang.org/x/tools/go/ssa"
)

// ---------------------------------------------------------------------------
// values

type AddrKind int

const (
	aField AddrKind = iota
	aElem
	aCell
	aGlobal
)

type Addr struct {
	Kind AddrKind
	Base Term   // object ref (aField) or array ref (aElem)
	Key  string // heap component key (aField: F:..., aElem: E:..., aGlobal: V:...)
	Idx  Term   // aElem: absolute index in the backing array
	Cell int    // aCell
	Elem types.Type
}

type Closure struct {
	Fn       *ssa.Function
	Bindings []*Val
}

type MapIter struct {
	Map   Term
	MTyp  *types.Map
	Ord   Term // (Array K Int): position of each key in the iteration order
	Inv   Term // (Array Int K): key at each position
	Pos   Term // number of keys delivered so far
	Dom   Term // domain row at the time `range` was executed
	Vals  Term
	Card  Term
	IsStr bool
}

// Val is a symbolic Go value.
type Val struct {
	T      Term
	Typ    types.Type
	Tup    []*Val
	Addr   *Addr
	Fields []*Val // struct aggregate, by field index
	Clo    *Closure
	Iter   *MapIter
	Guard  *Term // the lock (reference) that protects this map value, if it was read from a guarded field
}

func scalar(t Term, typ types.Type) *Val { return &Val{T: t, Typ: typ} }

// ---------------------------------------------------------------------------
// frames and states

type retKind int

const (
	retResume retKind = iota // continue the caller after the call instruction
	retUnwind                // deferred call finished while unwinding: keep unwinding
	retDefers                // deferred call finished inside rundefers: continue with the same instruction
)

type deferRec struct {
	clo    *Closure
	call   *ssa.CallCommon // non-closure deferred call
	args   []*Val
	fnVal  *Val
	instr  *ssa.Defer
	method bool
}

type Frame struct {
	fn      *ssa.Function
	vals    map[ssa.Value]*Val
	defers  []*deferRec
	parent  *Frame
	ret     retKind
	retBlk  *ssa.BasicBlock
	retIdx  int
	retInst ssa.Instruction
	depth   int
	// unwinding
	unwinding bool
	// loops already cut on this path (header -> true) used to detect back edges
	freeVars map[*ssa.FreeVar]*Val
	loopHeads map[*ssa.BasicBlock]*loopHead
	stops []stopRec
}

func (f *Frame) clone() *Frame {
	if f == nil {
		return nil
	}
	n := *f
	n.vals = make(map[ssa.Value]*Val, len(f.vals)+8)
	for k, v := range f.vals {
		n.vals[k] = v
	}
	n.defers = append([]*deferRec(nil), f.defers...)
	n.parent = f.parent.clone()
	return &n
}

type State struct {
	lines    []string
	heap     map[string]Term
	declared map[string]bool
	next     Term
	next0    Term
	entryWF  bool // transient: compWFRefs also states the entry bound (see initComp)
	cells    map[int]*Val
	frame    *Frame
	trace    []string
	// panic state
	panicking bool
	panicVal  Term
	// ghost: lock / misc handled through ghost maps in the heap
	nObl int
	parkPred *ssa.BasicBlock
}

func (st *State) clone() *State {
	n := *st
	n.lines = append([]string(nil), st.lines...)
	n.heap = make(map[string]Term, len(st.heap))
	for k, v := range st.heap {
		n.heap[k] = v
	}
	n.declared = make(map[string]bool, len(st.declared))
	for k, v := range st.declared {
		n.declared[k] = v
	}
	n.cells = make(map[int]*Val, len(st.cells))
	for k, v := range st.cells {
		n.cells[k] = v
	}
	n.frame = st.frame.clone()
	n.trace = append([]string(nil), st.trace...)
	return &n
}

func (st *State) emit(line string) { st.lines = append(st.lines, line) }

func (st *State) assume(t Term) {
	if t.S == "true" {
		return
	}
	st.emit("(assert " + t.S + ")")
}

// HeapView gives read access to a heap (current or a snapshot).
type HeapView interface {
	comp(key string, sort Sort) Term
}

// current heap of a state
func (st *State) comp(key string, sort Sort) Term {
	if t, ok := st.heap[key]; ok {
		return t
	}
	return st.initComp(key, sort)
}

func h0Name(key string) string { return quoteSym("H0:" + key) }

// initComp returns the entry-state symbol for a heap component, declaring it on this path.
func (st *State) initComp(key string, sort Sort) Term {
	name := h0Name(key)
	if !st.declared[key] {
		st.declared[key] = true
		st.emit(fmt.Sprintf("(declare-const %s %s)", name, sort))
		// the entry heap is well formed with respect to the allocation counter at entry as well: references
		// stored in objects that existed then are older than anything allocated since ("older than now" alone
		// does not separate them from memory allocated by callees in between); one quantifier carries both
		st.entryWF = st.next0.S != "" && st.next0.S != st.next.S
		st.compWF(key, Term{name, sort})
		st.entryWF = false
	}
	return Term{name, sort}
}

// compWF adds the well-formedness facts that hold of every heap component of this kind.
func (st *State) compWF(key string, t Term) {
	if strings.HasPrefix(key, "MD:") {
		// the nil map has no entries
		st.assume(mkEq(mkSelect(t, tZero), constArray(elemSortOf(t.Sort), tFalse)))
	}
	if strings.HasPrefix(key, "MC:") {
		st.assume(mkEq(mkSelect(t, tZero), tZero))
	}
	if strings.HasPrefix(key, "MV:") {
		// modelling invariant: outside the domain the value row holds the zero value
		dk := "MD:" + strings.TrimPrefix(key, "MV:")
		ks := keySortOf(elemSortOf(t.Sort))
		dom := st.comp(dk, arraySort(SInt, arraySort(ks, SBool)))
		zero := zeroOfSort(elemSortOf(elemSortOf(t.Sort)))
		st.emit(fmt.Sprintf("(assert (forall ((mz Int) (kz %s)) (! (=> (not (select (select %s mz) kz)) (= (select (select %s mz) kz) %s)) :pattern ((select (select %s mz) kz)) :qid |mapzero.%s|)))", ks, dom.S, t.S, zero.S, t.S, strings.ReplaceAll(key, "|", "!")))
	}
	st.compWFRefs(key, t, "")
}

// compWFRefs: every reference stored in an allocated object is allocated (relative to st.next).
func (st *State) compWFRefs(key string, t Term, tag string) {
	// heap well-formedness: every reference stored in the heap is allocated
	if kind := compRefKind[key]; kind != 0 && st.next.S != "" {
		var vars []string
		leaf := t
		so := t.Sort
		n := 0
		for strings.HasPrefix(string(so), "(Array ") {
			v := fmt.Sprintf("wf%d", n)
			n++
			vars = append(vars, fmt.Sprintf("(%s %s)", v, keySortOf(so)))
			leaf = mkSelect(leaf, Term{v, keySortOf(so)})
			so = elemSortOf(so)
		}
		if len(vars) == 0 {
			return
		}
		r := leaf
		extra := ""
		switch kind {
		case 2:
			r = app(SInt, "ival", leaf)
			extra = fmt.Sprintf(" (>= (itag %s) 0) (=> (= (itag %s) 0) (= (ival %s) 0))", leaf.S, leaf.S, leaf.S)
		case 3:
			r = app(SInt, "sarr", leaf)
			extra = fmt.Sprintf(" (<= 0 (soff %s)) (<= 0 (slen %s)) (<= (slen %s) (scap %s)) (=> (= (sarr %s) 0) (= (scap %s) 0))", leaf.S, leaf.S, leaf.S, leaf.S, leaf.S, leaf.S)
		}
		// only allocated objects (first index below the allocation counter) are constrained
		entry := ""
		if st.entryWF {
			entry = fmt.Sprintf(" (=> (< wf0 %s) (<= (+ (* %d %s) %d) %s))", st.next0.S, allocFactor, r.S, allocFactor, st.next0.S)
		}
		st.emit(fmt.Sprintf("(assert (forall (%s) (! (and (=> (< wf0 %s) (and (>= %s 0) (<= (+ (* %d %s) %d) %s)%s))%s) :pattern (%s) :qid |wf%s.%s|)))", strings.Join(vars, " "), st.next.S, r.S, allocFactor, r.S, allocFactor, st.next.S, extra, entry, leaf.S, tag, strings.ReplaceAll(key, "|", "!")))
	}
}

type snapshot struct {
	st   *State
	heap map[string]Term
}

func (s *snapshot) comp(key string, sort Sort) Term {
	if t, ok := s.heap[key]; ok {
		return t
	}
	return s.st.initComp(key, sort)
}

func (st *State) snap() *snapshot {
	h := make(map[string]Term, len(st.heap))
	for k, v := range st.heap {
		h[k] = v
	}
	return &snapshot{st, h}
}

// entry heap: every component at its H0 symbol
type entryView struct{ st *State }

func (e entryView) comp(key string, sort Sort) Term { return e.st.initComp(key, sort) }

func (st *State) setComp(key string, t Term) { st.heap[key] = t }

func (st *State) heapKeys() []string {
	var ks []string
	for k := range st.heap {
		ks = append(ks, k)
	}
	sort.Strings(ks)
	return ks
}
