package main

import (
	"bytes"
	"context"
	"fmt"
	"go/types"
	"os"
	"os/exec"
	"path/filepath"
	"sort"
	"strings"
	"sync"
	"time"
)

type SolveResult struct {
	Status  string // unsat | sat | unknown | timeout | error
	Solver  string
	Seconds float64
	Outputs map[string]string // solver -> first lines of output
	Model   string
}

type solverSpec struct {
	name string
	args func(file string, timeoutS int) []string
	bin  string
	pre  string
}

var solvers = []solverSpec{
	{name: "z3-new", bin: "z3-new", args: func(f string, t int) []string { return []string{fmt.Sprintf("-T:%d", t), f} }},
	{name: "z3", bin: "z3", args: func(f string, t int) []string { return []string{fmt.Sprintf("-T:%d", t), f} }},
	{name: "cvc5", bin: "cvc5", pre: "(set-logic ALL)\n", args: func(f string, t int) []string {
		return []string{"--lang=smt2", "--strings-exp", fmt.Sprintf("--tlimit=%d", t*1000), f}
	}},
}

func (ex *Exec) implFacts() string {
	var sb strings.Builder
	var keys []string
	for k := range ex.preludeSeen {
		if strings.HasPrefix(k, "impl:") {
			keys = append(keys, k)
		}
	}
	sort.Strings(keys)
	for _, k := range keys {
		it := ex.ld.resolveTypeQualified(strings.TrimPrefix(k, "impl:"))
		if it == nil {
			continue
		}
		iface, ok := it.Underlying().(*types.Interface)
		if !ok {
			continue
		}
		for _, t := range ex.tagTypes {
			n := ex.tags[types.TypeString(t, nil)]
			fmt.Fprintf(&sb, "(assert (= (%s %d) %v))\n", quoteSym(k), n, types.Implements(t, iface))
		}
	}
	return sb.String()
}

func (ex *Exec) script(o *Obligation, withModel bool) string {
	var sb strings.Builder
	sb.WriteString(smtPrelude)
	for _, d := range ex.prelude {
		sb.WriteString(d)
		sb.WriteString("\n")
	}
	sb.WriteString(ex.implFacts())
	for _, l := range o.Lines {
		sb.WriteString(l)
		sb.WriteString("\n")
	}
	if !o.Cover {
		sb.WriteString("(assert (not " + o.Goal.S + "))\n")
	}
	sb.WriteString("(check-sat)\n")
	if withModel {
		sb.WriteString("(get-model)\n")
	}
	return sb.String()
}

func runSolver(ctx context.Context, sp solverSpec, script string, dir string, id string, timeoutS int) (string, string, float64) {
	file := filepath.Join(dir, fmt.Sprintf("%s.%s.smt2", id, sp.name))
	content := script
	if sp.pre != "" {
		if withModel := strings.Contains(script, "(get-model)"); withModel {
			content = "(set-option :produce-models true)\n" + sp.pre + script
		} else {
			content = sp.pre + script
		}
	}
	if err := os.WriteFile(file, []byte(content), 0o644); err != nil {
		return "error", err.Error(), 0
	}
	defer os.Remove(file)
	cctx, cancel := context.WithTimeout(ctx, time.Duration(timeoutS+2)*time.Second)
	defer cancel()
	cmd := exec.CommandContext(cctx, sp.bin, sp.args(file, timeoutS)...)
	var out bytes.Buffer
	cmd.Stdout = &out
	cmd.Stderr = &out
	t0 := time.Now()
	err := cmd.Run()
	el := time.Since(t0).Seconds()
	text := out.String()
	first := strings.TrimSpace(strings.SplitN(text, "\n", 2)[0])
	switch first {
	case "unsat", "sat", "unknown":
		return first, text, el
	case "timeout":
		return "timeout", text, el
	}
	if cctx.Err() != nil {
		return "timeout", text, el
	}
	if err != nil && text == "" {
		return "error", err.Error(), el
	}
	if strings.Contains(text, "timeout") || strings.Contains(text, "interrupted") {
		return "timeout", text, el
	}
	return "error", text, el
}

// solveOne decides one obligation: a fast first attempt, then a race of all back ends.
func (ex *Exec) solveOne(o *Obligation, dir string, id string, timeoutS int, thorough bool) *SolveResult {
	script := ex.script(o, false)
	res := &SolveResult{Outputs: map[string]string{}}
	want := "unsat"
	if o.Cover {
		want = "sat"
	}
	t0 := time.Now()
	if o.Goal.S == "true" && !o.Cover {
		res.Status, res.Solver = "unsat", "trivial"
		return res
	}
	if o.Cover {
		// vacuity query: short; quantified assumptions are dropped on the second attempt
		// (unsat of the weaker set still proves vacuity, sat of it is reported as inconclusive-sat)
		st, out, _ := runSolver(context.Background(), solvers[0], script, dir, id, 2)
		res.Outputs[solvers[0].name] = trimOut(out)
		if st != "sat" && st != "unsat" {
			relaxed := *o
			relaxed.Lines = nil
			for _, l := range o.Lines {
				if !strings.Contains(l, "(forall ") && !strings.Contains(l, "(exists ") {
					relaxed.Lines = append(relaxed.Lines, l)
				}
			}
			st2, out2, _ := runSolver(context.Background(), solvers[0], ex.script(&relaxed, false), dir, id+"r", 2)
			res.Outputs["z3-new(relaxed)"] = trimOut(out2)
			if st2 == "unsat" {
				st = "unsat"
			} else if st2 == "sat" {
				st = "sat-relaxed"
			}
		}
		if st == "unsat" && o.Class == "cover-call" {
			// infeasible after the call: fine unless it was feasible before
			b := *o
			b.Lines = o.Before
			stb, _, _ := runSolver(context.Background(), solvers[0], ex.script(&b, false), dir, id+"b", 2)
			if stb == "sat" {
				st = "unsat-after-sat-before"
			} else {
				st = "infeasible-path"
			}
		}
		res.Status, res.Solver, res.Seconds = st, solvers[0].name, time.Since(t0).Seconds()
		return res
	}
	// stage 1
	fast := 2
	if timeoutS < fast {
		fast = timeoutS
	}
	st, out, _ := runSolver(context.Background(), solvers[0], script, dir, id, fast)
	res.Outputs[solvers[0].name] = trimOut(out)
	if st == want || (o.Cover && st == "unsat") || (!o.Cover && st == "sat" && !thorough && false) {
		res.Status, res.Solver, res.Seconds = st, solvers[0].name, time.Since(t0).Seconds()
		return res
	}
	// stage 2: race
	ctx, cancel := context.WithCancel(context.Background())
	defer cancel()
	type r struct {
		name, st, out string
	}
	ch := make(chan r, len(solvers))
	for _, sp := range solvers {
		sp := sp
		go func() {
			s, out, _ := runSolver(ctx, sp, script, dir, id, timeoutS)
			ch <- r{sp.name, s, out}
		}()
	}
	final := ""
	var stats []string
	for range solvers {
		x := <-ch
		res.Outputs[x.name] = trimOut(x.out)
		stats = append(stats, x.st)
		if x.st == want && final == "" {
			final = x.st
			res.Solver = x.name
			cancel()
		}
		if o.Cover && x.st == "unsat" && final == "" {
			final = "unsat"
			res.Solver = x.name
			cancel()
		}
	}
	if final == "" {
		// no back end answered as hoped: summarise
		final = "unknown"
		allErr := true
		for _, s := range stats {
			if s != "error" {
				allErr = false
			}
		}
		if allErr {
			final = "error"
		}
		for _, s := range stats {
			if s == "sat" {
				final = "sat"
			}
		}
		if final != "sat" {
			allTO := true
			for _, s := range stats {
				if s != "timeout" {
					allTO = false
				}
			}
			if allTO {
				final = "timeout"
			}
		}
	}
	res.Status = final
	res.Seconds = time.Since(t0).Seconds()
	return res
}

func trimOut(s string) string {
	if len(s) > 600 {
		return s[:600] + "..."
	}
	return s
}

// modelFor re-runs a failed obligation asking for a model.
func (ex *Exec) modelFor(o *Obligation, dir, id string, timeoutS int) (string, string) {
	script := ex.script(o, true)
	for _, sp := range solvers {
		st, out, _ := runSolver(context.Background(), sp, script, dir, id+".m", timeoutS)
		if st == "sat" {
			return sp.name, out
		}
	}
	return "", ""
}

func (ex *Exec) solveAll(obls []*Obligation, dir string, timeoutS int, thorough bool, workers int) {
	var wg sync.WaitGroup
	ch := make(chan int)
	for w := 0; w < workers; w++ {
		wg.Add(1)
		go func() {
			defer wg.Done()
			for i := range ch {
				obls[i].Result = ex.solveOne(obls[i], dir, fmt.Sprintf("o%d", i), timeoutS, thorough)
			}
		}()
	}
	for i := range obls {
		ch <- i
	}
	close(ch)
	wg.Wait()
}
