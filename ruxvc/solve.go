package main

import (
	"bytes"
	"regexp"
	"context"
	"fmt"
	"go/types"
	"os"
	"os/exec"
	"path/filepath"
	"sort"
	"strings"
	"sync"
	"time"
)

type SolveResult struct {
	Status  string // unsat | sat | unknown | timeout | error
	Solver  string
	Seconds float64
	Outputs map[string]string // solver -> first lines of output
	Model   string
}

type solverSpec struct {
	name string
	args func(file string, timeoutS int) []string
	bin  string
	pre  string
}

var solvers = []solverSpec{
	{name: "z3-new", bin: "z3-new", args: func(f string, t int) []string { return []string{fmt.Sprintf("-T:%d", t), f} }},
	{name: "z3", bin: "z3", args: func(f string, t int) []string { return []string{fmt.Sprintf("-T:%d", t), f} }},
	{name: "cvc5", bin: "cvc5", pre: "(set-logic ALL)\n", args: func(f string, t int) []string {
		return []string{"--lang=smt2", "--strings-exp", fmt.Sprintf("--tlimit=%d", t*1000), f}
	}},
	{name: "cvc5-enum", bin: "cvc5", pre: "(set-logic ALL)\n", args: func(f string, t int) []string {
		return []string{"--lang=smt2", "--strings-exp", "--enum-inst", fmt.Sprintf("--tlimit=%d", t*1000), f}
	}},
}

func (ex *Exec) implFacts() string {
	var sb strings.Builder
	var keys []string
	for k := range ex.preludeSeen {
		if strings.HasPrefix(k, "impl:") {
			keys = append(keys, k)
		}
	}
	sort.Strings(keys)
	for _, k := range keys {
		it := ex.ld.resolveTypeQualified(strings.TrimPrefix(k, "impl:"))
		if it == nil {
			continue
		}
		iface, ok := it.Underlying().(*types.Interface)
		if !ok {
			continue
		}
		for _, t := range ex.tagTypes {
			n := ex.tags[types.TypeString(t, nil)]
			fmt.Fprintf(&sb, "(assert (= (%s %d) %v))\n", quoteSym(k), n, types.Implements(t, iface))
		}
	}
	return sb.String()
}

func (ex *Exec) script(o *Obligation, withModel bool) string {
	var sb strings.Builder
	sb.WriteString(smtPrelude)
	for _, d := range ex.prelude {
		sb.WriteString(d)
		sb.WriteString("\n")
	}
	sb.WriteString(ex.implFacts())
	for _, l := range o.Lines {
		sb.WriteString(l)
		sb.WriteString("\n")
	}
	if !o.Cover {
		sb.WriteString("(assert (not " + o.Goal.S + "))\n")
	}
	sb.WriteString("(check-sat)\n")
	if withModel {
		sb.WriteString("(get-model)\n")
	}
	return sb.String()
}

var reStrLit = regexp.MustCompile(`"(?:[^"]|"")*"`)

// abstractStrings replaces the String sort by an uninterpreted sort when the query uses strings
// only through equality (no str.* / re.* operation): distinct literals become distinct constants.
// Every model over strings induces a model of the abstraction, so `unsat` carries over; the
// solvers' sequence theory, which makes them give up on quantified goals, stays out of the way.
func abstractStrings(script string) (string, bool) {
	if strings.Contains(script, "(re.") || strings.Contains(script, " re.") || strings.Contains(script, "str.in_re") {
		return "", false
	}
	if !strings.Contains(script, "String") {
		return "", false
	}
	lits := map[string]string{}
	var order []string
	out := reStrLit.ReplaceAllStringFunc(script, func(m string) string {
		n, ok := lits[m]
		if !ok {
			n = fmt.Sprintf("|strlit!%d|", len(lits))
			lits[m] = n
			order = append(order, m)
		}
		return n
	})
	out = strings.ReplaceAll(out, "String", "USTR")
	var decl strings.Builder
	decl.WriteString("(declare-sort USTR 0)\n")
	// string operations become uninterpreted functions (congruence is all that is kept)
	ops := []struct{ name, sig string }{
		{"str.++", "(USTR USTR) USTR"}, {"str.len", "(USTR) Int"}, {"str.at", "(USTR Int) USTR"}, {"str.substr", "(USTR Int Int) USTR"},
		{"str.indexof", "(USTR USTR Int) Int"}, {"str.contains", "(USTR USTR) Bool"}, {"str.prefixof", "(USTR USTR) Bool"},
		{"str.suffixof", "(USTR USTR) Bool"}, {"str.to_code", "(USTR) Int"}, {"str.from_code", "(Int) USTR"},
		{"str.replace_all", "(USTR USTR USTR) USTR"}, {"str.<=", "(USTR USTR) Bool"}, {"str.<", "(USTR USTR) Bool"},
	}
	for _, op := range ops {
		if strings.Contains(out, "("+op.name+" ") {
			u := "u" + strings.NewReplacer("+", "cat", "<=", "le", "<", "lt").Replace(op.name)
			out = strings.ReplaceAll(out, "("+op.name+" ", "("+u+" ")
			fmt.Fprintf(&decl, "(declare-fun %s %s)\n", u, op.sig)
			if op.name == "str.len" {
				decl.WriteString("(assert (forall ((s USTR)) (! (>= (ustr.len s) 0) :pattern ((ustr.len s)))))\n")
			}
		}
	}
	for _, m := range order {
		fmt.Fprintf(&decl, "(declare-const %s USTR)\n", lits[m])
	}
	if len(order) > 1 {
		decl.WriteString("(assert (distinct")
		for _, m := range order {
			decl.WriteString(" " + lits[m])
		}
		decl.WriteString("))\n")
	}
	return decl.String() + out, true
}

func usesStringOps(script string) bool { return strings.Contains(script, "(str.") }

func runSolver(ctx context.Context, sp solverSpec, script string, dir string, id string, timeoutS int) (string, string, float64) {
	file := filepath.Join(dir, fmt.Sprintf("%s.%s.smt2", id, sp.name))
	content := script
	if sp.pre != "" {
		if withModel := strings.Contains(script, "(get-model)"); withModel {
			content = "(set-option :produce-models true)\n" + sp.pre + script
		} else {
			content = sp.pre + script
		}
	}
	if err := os.WriteFile(file, []byte(content), 0o644); err != nil {
		return "error", err.Error(), 0
	}
	if os.Getenv("RUXVC_KEEP") == "" {
		defer os.Remove(file)
	}
	cctx, cancel := context.WithTimeout(ctx, time.Duration(timeoutS+2)*time.Second)
	defer cancel()
	cmd := exec.CommandContext(cctx, sp.bin, sp.args(file, timeoutS)...)
	var out bytes.Buffer
	cmd.Stdout = &out
	cmd.Stderr = &out
	t0 := time.Now()
	err := cmd.Run()
	el := time.Since(t0).Seconds()
	text := out.String()
	first := strings.TrimSpace(strings.SplitN(text, "\n", 2)[0])
	switch first {
	case "unsat", "sat", "unknown":
		return first, text, el
	case "timeout":
		return "timeout", text, el
	}
	if cctx.Err() != nil {
		return "timeout", text, el
	}
	if err != nil && text == "" {
		return "error", err.Error(), el
	}
	if strings.Contains(text, "timeout") || strings.Contains(text, "interrupted") {
		return "timeout", text, el
	}
	return "error", text, el
}

// solveOne decides one obligation: a fast first attempt, then a race of all back ends.
func (ex *Exec) solveOne(o *Obligation, dir string, id string, timeoutS int, thorough bool) *SolveResult {
	script := ex.script(o, false)
	// string abstraction: always sound for `unsat`. Queries that use strings only through equality are
	// abstracted outright; queries with string operations are tried concretely first and abstracted
	// (operations uninterpreted) as additional portfolio members.
	abstractScript := ""
	if a, ok := abstractStrings(script); ok {
		if usesStringOps(script) {
			abstractScript = a
		} else {
			script = a
		}
	}
	res := &SolveResult{Outputs: map[string]string{}}
	want := "unsat"
	if o.Cover {
		want = "sat"
	}
	t0 := time.Now()
	if o.Goal.S == "true" && !o.Cover {
		res.Status, res.Solver = "unsat", "trivial"
		return res
	}
	if o.Cover {
		// vacuity query: short; quantified assumptions are dropped on the second attempt
		// (unsat of the weaker set still proves vacuity, sat of it is reported as inconclusive-sat)
		st, out, _ := runSolver(context.Background(), solvers[0], script, dir, id, 2)
		res.Outputs[solvers[0].name] = trimOut(out)
		if st != "sat" && st != "unsat" {
			relaxed := *o
			relaxed.Lines = nil
			for _, l := range o.Lines {
				if !strings.Contains(l, "(forall ") && !strings.Contains(l, "(exists ") {
					relaxed.Lines = append(relaxed.Lines, l)
				}
			}
			var rl []string
			for _, l := range strings.Split(ex.script(&relaxed, false), "\n") {
				if !strings.Contains(l, "(forall ") {
					rl = append(rl, l)
				}
			}
			st2, out2, _ := runSolver(context.Background(), solvers[0], strings.Join(rl, "\n"), dir, id+"r", 2)
			res.Outputs["z3-new(relaxed)"] = trimOut(out2)
			if st2 == "unsat" {
				st = "unsat"
			} else if st2 == "sat" {
				st = "sat-relaxed"
			}
		}
		if st == "unsat" && o.Class == "cover-call" {
			// infeasible after the call: fine unless it was feasible before
			b := *o
			b.Lines = o.Before
			stb, _, _ := runSolver(context.Background(), solvers[0], ex.script(&b, false), dir, id+"b", 2)
			if stb == "sat" {
				st = "unsat-after-sat-before"
			} else {
				st = "infeasible-path"
			}
		}
		res.Status, res.Solver, res.Seconds = st, solvers[0].name, time.Since(t0).Seconds()
		return res
	}
	// stage 0: the string-abstracted query, when there is one, is usually decided at once; both z3 versions
	// race on it (each is several times faster than the other on some goals)
	if abstractScript != "" && !o.Cover {
		ctx0, cancel0 := context.WithCancel(context.Background())
		type r0 struct{ name, st, out string }
		ch0 := make(chan r0, 2)
		for k, sp := range solvers[:2] {
			sp, k := sp, k
			go func() {
				s, out, _ := runSolver(ctx0, sp, abstractScript, dir, fmt.Sprintf("%sa0%d", id, k), 4)
				ch0 <- r0{sp.name + "(str-abstract)", s, out}
			}()
		}
		won := ""
		for k := 0; k < 2; k++ {
			x := <-ch0
			res.Outputs[x.name] = trimOut(x.out)
			if x.st == "unsat" && won == "" {
				won = x.name
				cancel0()
			}
		}
		cancel0()
		if won != "" {
			res.Status, res.Solver, res.Seconds = "unsat", won, time.Since(t0).Seconds()
			return res
		}
	}
	// stage 1
	fast := 2
	if timeoutS < fast {
		fast = timeoutS
	}
	st, out, _ := runSolver(context.Background(), solvers[0], script, dir, id, fast)
	res.Outputs[solvers[0].name] = trimOut(out)
	if st == want || (o.Cover && st == "unsat") || (!o.Cover && st == "sat" && !thorough && false) {
		res.Status, res.Solver, res.Seconds = st, solvers[0].name, time.Since(t0).Seconds()
		return res
	}
	// stage 2: race
	ctx, cancel := context.WithCancel(context.Background())
	defer cancel()
	type r struct {
		name, st, out string
	}
	ch := make(chan r, len(solvers)+2)
	n := 0
	for _, sp := range solvers {
		sp := sp
		n++
		go func() {
			s, out, _ := runSolver(ctx, sp, script, dir, id, timeoutS)
			ch <- r{sp.name, s, out}
		}()
	}
	if abstractScript != "" {
		for k, sp := range solvers {
			sp, k := sp, k
			n++
			go func() {
				s, out, _ := runSolver(ctx, sp, abstractScript, dir, fmt.Sprintf("%sa%d", id, k), timeoutS)
				if s != "unsat" {
					s = "unknown" // a model of the abstraction is not a model of the query
				}
				ch <- r{sp.name + "(str-abstract)", s, out}
			}()
		}
	}
	final := ""
	var stats []string
	for k := 0; k < n; k++ {
		x := <-ch
		res.Outputs[x.name] = trimOut(x.out)
		stats = append(stats, x.st)
		if x.st == want && final == "" {
			final = x.st
			res.Solver = x.name
			cancel()
		}
		if o.Cover && x.st == "unsat" && final == "" {
			final = "unsat"
			res.Solver = x.name
			cancel()
		}
	}
	if final == "" {
		// no back end answered as hoped: summarise
		final = "unknown"
		allErr := true
		for _, s := range stats {
			if s != "error" {
				allErr = false
			}
		}
		if allErr {
			final = "error"
		}
		for _, s := range stats {
			if s == "sat" {
				final = "sat"
			}
		}
		if final != "sat" {
			allTO := true
			for _, s := range stats {
				if s != "timeout" {
					allTO = false
				}
			}
			if allTO {
				final = "timeout"
			}
		}
	}
	res.Status = final
	res.Seconds = time.Since(t0).Seconds()
	return res
}

func trimOut(s string) string {
	if len(s) > 600 {
		return s[:600] + "..."
	}
	return s
}

// modelFor re-runs a failed obligation asking for a model.
func (ex *Exec) modelFor(o *Obligation, dir, id string, timeoutS int) (string, string) {
	// a solver that refuted the obligation is asked again for its model
	if o.Result.Status == "sat" {
		script := ex.script(o, true)
		for _, sp := range solvers {
			if sp.name != o.Result.Solver && o.Result.Solver != "" {
				continue
			}
			st, out, _ := runSolver(context.Background(), sp, script, dir, id+".m", timeoutS)
			if st == "sat" {
				return sp.name, out
			}
		}
		for _, sp := range solvers {
			st, out, _ := runSolver(context.Background(), sp, script, dir, id+".m", timeoutS)
			if st == "sat" {
				return sp.name, out
			}
		}
		return "", ""
	}
	// undecided (quantifiers): a candidate input from the quantifier-free part of the query. It may violate a
	// dropped assumption; it is only ever reported when the replay on the real code confirms it.
	relaxed := *o
	relaxed.Lines = nil
	for _, l := range o.Lines {
		if !strings.Contains(l, "(forall ") && !strings.Contains(l, "(exists ") {
			relaxed.Lines = append(relaxed.Lines, l)
		}
	}
	if strings.Contains(o.Goal.S, "(forall ") && !strings.HasPrefix(o.Goal.S, "(forall ") {
		return "", ""
	}
	var rl []string
	for _, l := range strings.Split(ex.script(&relaxed, true), "\n") {
		if !strings.Contains(l, "(forall ") || strings.HasPrefix(l, "(assert (not ") {
			rl = append(rl, l)
		}
	}
	st, out, _ := runSolver(context.Background(), solvers[0], strings.Join(rl, "\n"), dir, id+".mr", 5)
	if st == "sat" {
		return solvers[0].name + "(quantifier-free candidate)", out
	}
	return "", ""
}

func (ex *Exec) solveAll(obls []*Obligation, dir string, timeoutS int, thorough bool, workers int) {
	var wg sync.WaitGroup
	ch := make(chan int)
	for w := 0; w < workers; w++ {
		wg.Add(1)
		go func() {
			defer wg.Done()
			for i := range ch {
				obls[i].Result = ex.solveOne(obls[i], dir, fmt.Sprintf("o%d", i), timeoutS, thorough)
			}
		}()
	}
	for i := range obls {
		ch <- i
	}
	close(ch)
	wg.Wait()
}
