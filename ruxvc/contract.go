package main

// Contract table: parsed from `//@` comment lines of build-tag guarded,
// comment-only files inside the verified repository.

import (
	"fmt"
	"regexp"
	"sort"
	"strings"
)

type Clause struct {
	Kind  string   // requires ensures panics invariant decreases
	Label string   // optional label
	Tags  []string // property ids; empty = inherits the block's tags
	Src   string
	E     Expr
	File  string
	Line  int
}

type ModTarget struct {
	Src string
	E   Expr // EField (x.f), ECall ghost(x), EIndex, or EIdent "*" patterns, see specsem
}

type Contract struct {
	Kind     string // func, extern, functype, trusted
	Key      string // fully-qualified function key
	Pkg      string // package path of the contract file
	Params   []string
	Results  []string
	Tags     []string
	Requires []*Clause
	Ensures  []*Clause
	XEnsures []*Clause // exceptional postconditions (hold when the call panics)
	Panics   []*Clause // may-panic conditions (over the pre-state)
	Modifies []ModTarget
	GhostSets []GhostSet
	XGhostSets []GhostSet // ghost updates executed when the function exits by a panic
	NoMerge   bool
	Stable    []ModTarget // functype: when the value is invoked, the heap differs from the enclosing function's entry only here
	ModAny   bool // "modifies *": callers havoc everything (only for externs that run user code)
	MayPanic bool // `panics *`: may panic under any circumstances
	Pure     bool
	Reveals  map[string]bool
	Uses     []string
	Expect   int // minimum number of obligations
	File     string
	Line     int
}

type GhostSet struct {
	Target Expr
	Value  Expr
	Src    string
}

type Lemma struct {
	Name string
	Pkg  string
	E    Expr
	Src  string
	Tags []string
	File string
	Line int
}

type LoopContract struct {
	FnKey      string
	Ordinal    int
	Pkg        string
	Vars       []string // expected phi names (sanity binding)
	Invariants []*Clause
	Decreases  *Clause
	Modifies   []ModTarget
	Tags       []string
	File       string
	Line       int
}

type GhostDecl struct {
	Name    string
	KeySort []string // spec types of keys
	ValType string   // spec type of value
}

type SpecFunc struct {
	Name   string
	Pkg    string
	Params []QVar
	Ret    string
	Body   Expr
	Src    string
	Opaque bool
}

type ImplDecl struct {
	Iface string // fully qualified named interface, e.g. net/http.ResponseWriter
	Conc  string // e.g. *github.com/gookit/rux.responseWriter
}

type ContractTable struct {
	Funcs    map[string]*Contract
	Loops    map[string]*LoopContract // key: fnKey#ordinal
	Ghosts   map[string]*GhostDecl
	Specs    map[string]*SpecFunc
	Impls    []ImplDecl
	Guards   map[string]string // field key (pkg.Type.field) -> lock field name
	Lemmas   map[string]*Lemma
	PropFns  map[string][]string // property -> function keys (derived)
	AllLines int
}

func newContractTable() *ContractTable {
	return &ContractTable{
		Funcs:  map[string]*Contract{},
		Loops:  map[string]*LoopContract{},
		Ghosts: map[string]*GhostDecl{},
		Specs:  map[string]*SpecFunc{},
		Guards: map[string]string{},
		Lemmas: map[string]*Lemma{},
	}
}

type rawLine struct {
	text string
	file string
	line int
}

var (
	reTags   = regexp.MustCompile(`^\[([A-Za-z0-9_, ]+)\]\s*`)
	reLabel  = regexp.MustCompile(`^([A-Za-z_][A-Za-z0-9_]*):(\s+|$)`)
	reHeader = regexp.MustCompile(`^(\S.*?)(\(([A-Za-z0-9_, ]*)\))?\s*(\(([A-Za-z0-9_, ]*)\))?\s*(\[([A-Za-z0-9_, ]+)\])?$`)
)

var blockKeywords = map[string]bool{"func": true, "extern": true, "functype": true, "trusted": true, "loop": true, "ghost": true, "spec": true, "opaque": true, "impl": true, "guarded": true, "lemma": true}
var clauseKeywords = map[string]bool{"requires": true, "ensures": true, "xensures": true, "defines": true, "panics": true, "modifies": true, "invariant": true, "decreases": true, "expect": true, "vars": true, "pure": true, "ghostset": true, "reveals": true, "uses": true, "nomerge": true, "stable": true, "xghostset": true}

func splitList(s string) []string {
	var out []string
	for _, p := range strings.Split(s, ",") {
		p = strings.TrimSpace(p)
		if p != "" {
			out = append(out, p)
		}
	}
	return out
}

// splitTopLevel splits on commas that are not nested in brackets.
func splitTopLevel(s string) []string {
	var out []string
	depth := 0
	start := 0
	inStr := false
	for i := 0; i < len(s); i++ {
		c := s[i]
		if inStr {
			if c == '\\' {
				i++
			} else if c == '"' {
				inStr = false
			}
			continue
		}
		switch c {
		case '"':
			inStr = true
		case '(', '[':
			depth++
		case ')', ']':
			depth--
		case ',':
			if depth == 0 {
				out = append(out, strings.TrimSpace(s[start:i]))
				start = i + 1
			}
		}
	}
	if t := strings.TrimSpace(s[start:]); t != "" {
		out = append(out, t)
	}
	return out
}

// qualify turns a package-local function designator into the SSA key.
func qualifyFuncKey(name, pkg string) string {
	name = strings.TrimSpace(name)
	if strings.HasPrefix(name, "(") {
		// (*T).M or (T).M, possibly already qualified
		end := strings.Index(name, ")")
		recv := name[1:end]
		rest := name[end+1:]
		star := ""
		if strings.HasPrefix(recv, "*") {
			star = "*"
			recv = recv[1:]
		}
		if !strings.Contains(recv, ".") {
			recv = pkg + "." + recv
		}
		return "(" + star + recv + ")" + rest
	}
	if !strings.Contains(name, ".") {
		return pkg + "." + name
	}
	// could be pkg-local "Fn$1" (no dot) handled above; qualified otherwise
	return name
}

func (ct *ContractTable) parseLines(lines []rawLine, pkg string) error {
	// join continuation lines
	var joined []rawLine
	for _, l := range lines {
		t := strings.TrimSpace(l.text)
		if t == "" {
			continue
		}
		first := t
		if i := strings.IndexAny(t, " \t[("); i >= 0 {
			first = t[:i]
		}
		if blockKeywords[first] || clauseKeywords[first] {
			joined = append(joined, rawLine{t, l.file, l.line})
		} else {
			if len(joined) == 0 {
				return fmt.Errorf("%s:%d: continuation line without a clause: %s", l.file, l.line, t)
			}
			joined[len(joined)-1].text += " " + t
		}
	}
	ct.AllLines += len(joined)

	var curC *Contract
	var curL *LoopContract
	for _, l := range joined {
		t := l.text
		kw := t
		rest := ""
		if i := strings.IndexAny(t, " \t["); i >= 0 {
			kw = t[:i]
			rest = strings.TrimSpace(t[i:])
		}
		errf := func(f string, a ...any) error {
			return fmt.Errorf("%s:%d: %s", l.file, l.line, fmt.Sprintf(f, a...))
		}
		switch kw {
		case "func", "extern", "functype", "trusted":
			m := reHeader.FindStringSubmatch(rest)
			if m == nil {
				return errf("bad header %q", rest)
			}
			name := m[1]
			c := &Contract{Kind: kw, Pkg: pkg, File: l.file, Line: l.line}
			// header forms: "name", "name(params)", "name(params) (results)", with "(*T).M" names
			// The regexp is ambiguous for "(*T).M"; handle by scanning manually.
			name, params, results, tags, err := parseHeader(rest)
			if err != nil {
				return errf("%v", err)
			}
			c.Params, c.Results, c.Tags = params, results, tags
			if kw == "functype" && strings.HasPrefix(name, "field:") {
				c.Key = "functype:field:" + pkg + "." + strings.TrimPrefix(name, "field:")
			} else if kw == "functype" && strings.Contains(name, ":") {
				k := strings.LastIndex(name, ":")
				c.Key = "functype:" + qualifyFuncKey(name[:k], pkg) + ":" + name[k+1:]
			} else if kw == "functype" {
				c.Key = "functype:" + qualifyTypeName(name, pkg)
			} else {
				c.Key = qualifyFuncKey(name, pkg)
			}
			if _, dup := ct.Funcs[c.Key]; dup {
				return errf("duplicate contract for %s", c.Key)
			}
			ct.Funcs[c.Key] = c
			curC, curL = c, nil
		case "loop":
			// loop <func> #n [tags]
			tags := []string(nil)
			if i := strings.LastIndex(rest, "["); i >= 0 && strings.HasSuffix(rest, "]") {
				tags = splitList(rest[i+1 : len(rest)-1])
				rest = strings.TrimSpace(rest[:i])
			}
			i := strings.LastIndex(rest, "#")
			if i < 0 {
				return errf("loop header needs #ordinal")
			}
			var ord int
			if _, err := fmt.Sscanf(rest[i+1:], "%d", &ord); err != nil {
				return errf("bad loop ordinal")
			}
			lc := &LoopContract{FnKey: qualifyFuncKey(strings.TrimSpace(rest[:i]), pkg), Ordinal: ord, Pkg: pkg, Tags: tags, File: l.file, Line: l.line}
			k := fmt.Sprintf("%s#%d", lc.FnKey, ord)
			if _, dup := ct.Loops[k]; dup {
				return errf("duplicate loop contract %s", k)
			}
			ct.Loops[k] = lc
			curL, curC = lc, nil
		case "ghost":
			// ghost name(keytypes) valtype
			i := strings.Index(rest, "(")
			j := strings.Index(rest, ")")
			if i < 0 || j < i {
				return errf("bad ghost declaration")
			}
			g := &GhostDecl{Name: strings.TrimSpace(rest[:i]), KeySort: splitList(rest[i+1 : j]), ValType: strings.TrimSpace(rest[j+1:])}
			ct.Ghosts[g.Name] = g
			curC, curL = nil, nil
		case "nomerge":
			// explore the branches of this function path by path (no ite-merging of states at joins)
			if curC == nil {
				return errf("nomerge outside function contract")
			}
			curC.NoMerge = true
		case "uses":
			if curC == nil {
				return errf("uses outside function contract")
			}
			curC.Uses = append(curC.Uses, splitList(rest)...)
		case "lemma":
			// lemma name [tags]: closed formula, proved once from the theory alone, usable via `uses name`
			lm := &Lemma{Pkg: pkg, File: l.file, Line: l.line}
			if m := reLabel.FindStringSubmatch(rest); m != nil {
				lm.Name = m[1]
				rest = rest[len(m[0]):]
			} else {
				return errf("lemma needs a name")
			}
			if m := reTags.FindStringSubmatch(rest); m != nil {
				lm.Tags = splitList(m[1])
				rest = rest[len(m[0]):]
			}
			e, err := parseSpecExpr(rest)
			if err != nil {
				return errf("%v", err)
			}
			lm.E, lm.Src = e, rest
			ct.Lemmas[lm.Name] = lm
			curC, curL = nil, nil
		case "reveals":
			if curC == nil {
				return errf("reveals outside function contract")
			}
			if curC.Reveals == nil {
				curC.Reveals = map[string]bool{}
			}
			for _, n := range splitList(rest) {
				curC.Reveals[n] = true
			}
		case "spec", "opaque":
			// spec name(a T, b U) R = expr      (opaque spec: `opaque name(...) R = expr`)
			eq := strings.Index(rest, "=")
			for eq >= 0 && eq+1 < len(rest) && (rest[eq+1] == '=' || (eq > 0 && (rest[eq-1] == '=' || rest[eq-1] == '!' || rest[eq-1] == '<' || rest[eq-1] == '>'))) {
				n := strings.Index(rest[eq+1:], "=")
				if n < 0 {
					eq = -1
					break
				}
				eq = eq + 1 + n
			}
			if eq < 0 {
				return errf("spec needs '= body'")
			}
			head := strings.TrimSpace(rest[:eq])
			body := strings.TrimSpace(rest[eq+1:])
			i := strings.Index(head, "(")
			j := strings.LastIndex(head, ")")
			if i < 0 || j < i {
				return errf("bad spec header")
			}
			sf := &SpecFunc{Name: strings.TrimSpace(head[:i]), Pkg: pkg, Ret: strings.TrimSpace(head[j+1:]), Src: body, Opaque: kw == "opaque"}
			for _, p := range splitList(head[i+1 : j]) {
				f := strings.Fields(p)
				if len(f) != 2 {
					return errf("bad spec parameter %q", p)
				}
				sf.Params = append(sf.Params, QVar{f[0], f[1]})
			}
			e, err := parseSpecExpr(body)
			if err != nil {
				return errf("%v", err)
			}
			sf.Body = e
			ct.Specs[sf.Name] = sf
			curC, curL = nil, nil
		case "guarded":
			// guarded Type.field by lockfield
			f := strings.Fields(rest)
			if len(f) != 3 || f[1] != "by" {
				return errf("guarded Type.field by lockfield")
			}
			ct.Guards["F:"+qualifyTypeName(f[0][:strings.LastIndex(f[0], ".")], pkg)+f[0][strings.LastIndex(f[0], "."):]] = f[2]
			curC, curL = nil, nil
		case "impl":
			parts := strings.SplitN(rest, ":", 2)
			if len(parts) != 2 {
				return errf("impl Iface: *Type")
			}
			for _, c := range splitList(parts[1]) {
				ct.Impls = append(ct.Impls, ImplDecl{Iface: qualifyTypeName(strings.TrimSpace(parts[0]), pkg), Conc: qualifyTypeName(c, pkg)})
			}
			curC, curL = nil, nil
		case "requires", "ensures", "panics", "invariant", "decreases", "defines", "xensures":
			cl := &Clause{Kind: kw, File: l.file, Line: l.line}
			if m := reTags.FindStringSubmatch(rest); m != nil {
				cl.Tags = splitList(m[1])
				rest = rest[len(m[0]):]
			}
			if m := reLabel.FindStringSubmatch(rest); m != nil {
				cl.Label = m[1]
				rest = rest[len(m[0]):]
			}
			cl.Src = rest
			if kw == "panics" && strings.TrimSpace(rest) == "*" {
				if curC == nil {
					return errf("panics outside function contract")
				}
				curC.MayPanic = true
				continue
			}
			e, err := parseSpecExpr(rest)
			if err != nil {
				return errf("%v", err)
			}
			cl.E = e
			switch {
			case curC != nil && kw == "requires":
				curC.Requires = append(curC.Requires, cl)
			case curC != nil && kw == "ensures":
				curC.Ensures = append(curC.Ensures, cl)
			case curC != nil && kw == "xensures":
				curC.XEnsures = append(curC.XEnsures, cl)
			case curC != nil && kw == "defines":
				cl.Kind = "defines"
				curC.Ensures = append(curC.Ensures, cl)
			case curC != nil && kw == "panics":
				curC.Panics = append(curC.Panics, cl)
			case curL != nil && kw == "invariant":
				curL.Invariants = append(curL.Invariants, cl)
			case curL != nil && kw == "decreases":
				curL.Decreases = cl
			default:
				return errf("clause %s not allowed here", kw)
			}
		case "stable":
			if curC == nil || curC.Kind != "functype" {
				return errf("stable outside a functype contract")
			}
			for _, p := range splitTopLevel(rest) {
				e, err := parseModTarget(p)
				if err != nil {
					return errf("%v", err)
				}
				curC.Stable = append(curC.Stable, ModTarget{p, e})
			}
		case "modifies":
			var mods []ModTarget
			any := false
			for _, p := range splitTopLevel(rest) {
				if p == "*" {
					any = true
					continue
				}
				if p == "nothing" {
					continue
				}
				e, err := parseModTarget(p)
				if err != nil {
					return errf("%v", err)
				}
				mods = append(mods, ModTarget{p, e})
			}
			switch {
			case curC != nil:
				curC.Modifies = append(curC.Modifies, mods...)
				curC.ModAny = curC.ModAny || any
			case curL != nil:
				curL.Modifies = append(curL.Modifies, mods...)
			default:
				return errf("modifies outside a contract")
			}
		case "ghostset", "xghostset":
			if curC == nil {
				return errf("ghostset outside function contract")
			}
			i := strings.Index(rest, " = ")
			if i < 0 {
				return errf("ghostset target = value")
			}
			te, err := parseSpecExpr(rest[:i])
			if err != nil {
				return errf("%v", err)
			}
			ve, err := parseSpecExpr(rest[i+3:])
			if err != nil {
				return errf("%v", err)
			}
			if kw == "xghostset" {
				curC.XGhostSets = append(curC.XGhostSets, GhostSet{te, ve, rest})
			} else {
				curC.GhostSets = append(curC.GhostSets, GhostSet{te, ve, rest})
			}
		case "expect":
			if curC == nil {
				return errf("expect outside function contract")
			}
			fmt.Sscanf(strings.TrimPrefix(strings.TrimSpace(rest), ">="), "%d", &curC.Expect)
		case "vars":
			if curL == nil {
				return errf("vars outside loop contract")
			}
			curL.Vars = splitList(rest)
		case "pure":
			if curC == nil {
				return errf("pure outside contract")
			}
			curC.Pure = true
		default:
			return errf("unknown keyword %q", kw)
		}
	}
	return nil
}

// parseModTarget parses a frame target. Besides ordinary expressions it
// accepts the wildcard forms  T.f  (field f of every object; written
// `all(T).f`), `elems(s)` (all elements of the backing array of s) and
// `mapof(m)` (all entries of map m).
func parseModTarget(s string) (Expr, error) {
	return parseSpecExpr(s)
}

func parseHeader(s string) (name string, params, results, tags []string, err error) {
	s = strings.TrimSpace(s)
	// tags at the end
	if strings.HasSuffix(s, "]") {
		if i := strings.LastIndex(s, "["); i >= 0 {
			tags = splitList(s[i+1 : len(s)-1])
			s = strings.TrimSpace(s[:i])
		}
	}
	// name: either "(recv).Name" or "Name"
	i := 0
	if strings.HasPrefix(s, "(") {
		i = strings.Index(s, ")") + 1
	}
	j := i
	for j < len(s) && s[j] != '(' && s[j] != ' ' {
		j++
	}
	name = s[:j]
	rest := strings.TrimSpace(s[j:])
	if strings.HasPrefix(rest, "(") {
		k := strings.Index(rest, ")")
		if k < 0 {
			return "", nil, nil, nil, fmt.Errorf("bad parameter list in %q", s)
		}
		params = splitList(rest[1:k])
		if params == nil {
			params = []string{}
		}
		rest = strings.TrimSpace(rest[k+1:])
		if strings.HasPrefix(rest, "(") {
			k := strings.Index(rest, ")")
			if k < 0 {
				return "", nil, nil, nil, fmt.Errorf("bad result list in %q", s)
			}
			results = splitList(rest[1:k])
			rest = strings.TrimSpace(rest[k+1:])
		}
	}
	if rest != "" {
		return "", nil, nil, nil, fmt.Errorf("trailing text %q in header", rest)
	}
	return
}

func qualifyTypeName(name, pkg string) string {
	star := ""
	for strings.HasPrefix(name, "*") {
		star += "*"
		name = name[1:]
	}
	if !strings.Contains(name, ".") {
		name = pkg + "." + name
	}
	return star + name
}

// finish derives the property -> functions table.
func (ct *ContractTable) finish() {
	ct.PropFns = map[string][]string{}
	add := func(p, k string) {
		for _, x := range ct.PropFns[p] {
			if x == k {
				return
			}
		}
		ct.PropFns[p] = append(ct.PropFns[p], k)
	}
	for k, c := range ct.Funcs {
		if c.Kind != "func" {
			continue
		}
		for _, t := range c.Tags {
			add(t, k)
		}
		for _, cls := range [][]*Clause{c.Requires, c.Ensures, c.Panics} {
			for _, cl := range cls {
				for _, t := range cl.Tags {
					add(t, k)
				}
			}
		}
	}
	for _, l := range ct.Loops {
		for _, t := range l.Tags {
			add(t, l.FnKey)
		}
		for _, cl := range l.Invariants {
			for _, t := range cl.Tags {
				add(t, l.FnKey)
			}
		}
	}
	for p := range ct.PropFns {
		sort.Strings(ct.PropFns[p])
	}
}

func hasTag(tags []string, p string) bool {
	for _, t := range tags {
		if t == p {
			return true
		}
	}
	return false
}
