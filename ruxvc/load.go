package main

import (
	"fmt"
	"go/token"
	"go/types"
	"path/filepath"
	"sort"
	"strings"

	"golang.org/x/tools/go/packages"
	"golang.org/x/tools/go/ssa"
	"golang.org/x/tools/go/ssa/ssautil"
)

const modulePath = "github.com/gookit/rux"

type Loaded struct {
	fset   *token.FileSet
	prog   *ssa.Program
	pkgs   []*packages.Package
	ct     *ContractTable
	funcs  map[string]*ssa.Function
	byPath map[string]*types.Package
	byName map[string][]*types.Package
	repo   string
}

func loadRepo(dir string) (*Loaded, error) {
	cfg := &packages.Config{Mode: packages.LoadAllSyntax, Dir: dir, BuildFlags: []string{"-tags=verif"}, Tests: false}
	pkgs, err := packages.Load(cfg, "./...")
	if err != nil {
		return nil, err
	}
	var errs []string
	packages.Visit(pkgs, nil, func(p *packages.Package) {
		if strings.HasPrefix(p.PkgPath, modulePath) {
			for _, e := range p.Errors {
				errs = append(errs, e.Error())
			}
		}
	})
	if len(errs) > 0 {
		return nil, fmt.Errorf("the repository does not compile: %s", strings.Join(errs, "; "))
	}
	prog, _ := ssautil.AllPackages(pkgs, ssa.InstantiateGenerics)
	prog.Build()
	ld := &Loaded{fset: prog.Fset, prog: prog, pkgs: pkgs, funcs: map[string]*ssa.Function{}, byPath: map[string]*types.Package{}, byName: map[string][]*types.Package{}, repo: dir}
	for fn := range ssautil.AllFunctions(prog) {
		ld.funcs[fn.String()] = fn
	}
	for _, p := range prog.AllPackages() {
		ld.byPath[p.Pkg.Path()] = p.Pkg
		ld.byName[p.Pkg.Name()] = append(ld.byName[p.Pkg.Name()], p.Pkg)
	}
	ld.ct = newContractTable()
	// contracts: //@ lines of files named zz_verif_contracts*.go in module packages
	var mods []*packages.Package
	packages.Visit(pkgs, nil, func(p *packages.Package) {
		if strings.HasPrefix(p.PkgPath, modulePath) {
			mods = append(mods, p)
		}
	})
	sort.Slice(mods, func(i, j int) bool { return mods[i].PkgPath < mods[j].PkgPath })
	for _, p := range mods {
		for _, f := range p.Syntax {
			fname := ld.fset.Position(f.Pos()).Filename
			if !strings.HasPrefix(filepath.Base(fname), "zz_verif_contracts") {
				continue
			}
			var lines []rawLine
			for _, cg := range f.Comments {
				for _, c := range cg.List {
					if strings.HasPrefix(c.Text, "//@") {
						lines = append(lines, rawLine{strings.TrimPrefix(c.Text, "//@"), fname, ld.fset.Position(c.Pos()).Line})
					}
				}
			}
			if err := ld.ct.parseLines(lines, p.PkgPath); err != nil {
				return nil, err
			}
		}
	}
	ld.ct.finish()
	return ld, nil
}

func (ld *Loaded) inModule(fn *ssa.Function) bool {
	p := fn.Pkg
	if p == nil && fn.Parent() != nil {
		p = fn.Parent().Pkg
	}
	if p == nil {
		if o := fn.Origin(); o != nil {
			p = o.Pkg
		}
	}
	return p != nil && strings.HasPrefix(p.Pkg.Path(), modulePath)
}

func (ld *Loaded) typesPkg(path string) *types.Package {
	if p, ok := ld.byPath[path]; ok {
		return p
	}
	return nil
}

// resolveType parses a small type syntax: *T, []T, builtin, Name, pkg.Name, path/pkg.Name.
func (ld *Loaded) resolveType(name string, pkg *types.Package) types.Type {
	name = strings.TrimSpace(name)
	if strings.HasPrefix(name, "*") {
		t := ld.resolveType(name[1:], pkg)
		if t == nil {
			return nil
		}
		return types.NewPointer(t)
	}
	if strings.HasPrefix(name, "[]") {
		t := ld.resolveType(name[2:], pkg)
		if t == nil {
			return nil
		}
		return types.NewSlice(t)
	}
	if strings.HasPrefix(name, "map[") {
		depth, end := 0, -1
		for i := 3; i < len(name); i++ {
			if name[i] == '[' {
				depth++
			} else if name[i] == ']' {
				depth--
				if depth == 0 {
					end = i
					break
				}
			}
		}
		if end < 0 {
			return nil
		}
		k, v := ld.resolveType(name[4:end], pkg), ld.resolveType(name[end+1:], pkg)
		if k == nil || v == nil {
			return nil
		}
		return types.NewMap(k, v)
	}
	if strings.HasPrefix(name, "func(") {
		// func(T1, T2) R   (parameter types only, at most one result)
		depth, end := 0, -1
		for i := 4; i < len(name); i++ {
			if name[i] == '(' {
				depth++
			} else if name[i] == ')' {
				depth--
				if depth == 0 {
					end = i
					break
				}
			}
		}
		if end < 0 {
			return nil
		}
		var ps []*types.Var
		for _, a := range splitTopLevel(name[5:end]) {
			a = strings.TrimSpace(a)
			if a == "" {
				continue
			}
			t := ld.resolveType(a, pkg)
			if t == nil {
				return nil
			}
			ps = append(ps, types.NewVar(0, nil, "", t))
		}
		var rs []*types.Var
		if r := strings.TrimSpace(name[end+1:]); r != "" {
			t := ld.resolveType(r, pkg)
			if t == nil {
				return nil
			}
			rs = append(rs, types.NewVar(0, nil, "", t))
		}
		return types.NewSignatureType(nil, nil, nil, types.NewTuple(ps...), types.NewTuple(rs...), false)
	}
	if o := types.Universe.Lookup(name); o != nil {
		if tn, ok := o.(*types.TypeName); ok {
			return tn.Type()
		}
	}
	if i := strings.LastIndex(name, "."); i >= 0 {
		pn, tn := name[:i], name[i+1:]
		var cands []*types.Package
		if p, ok := ld.byPath[pn]; ok {
			cands = []*types.Package{p}
		} else {
			cands = ld.byName[pn]
		}
		for _, p := range cands {
			if o, ok := p.Scope().Lookup(tn).(*types.TypeName); ok {
				return o.Type()
			}
		}
		return nil
	}
	if pkg != nil {
		if o, ok := pkg.Scope().Lookup(name).(*types.TypeName); ok {
			return o.Type()
		}
	}
	return nil
}

func (ld *Loaded) resolveTypeQualified(name string) types.Type {
	return ld.resolveType(name, nil)
}

func (ld *Loaded) lookupGlobal(name string, pkg *types.Package) *types.Var {
	if pkg == nil {
		return nil
	}
	if v, ok := pkg.Scope().Lookup(name).(*types.Var); ok {
		return v
	}
	return nil
}
