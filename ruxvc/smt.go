package main

import (
	"fmt"
	"go/types"
	"strings"
)

// Sort is an SMT-LIB sort written out.
type Sort string

const (
	SInt    Sort = "Int"
	SBool   Sort = "Bool"
	SString Sort = "String"
	SSlice  Sort = "Slice"
	SIface  Sort = "Iface"
	SAgg    Sort = "<aggregate>" // structs/tuples: not an SMT value
)

func arraySort(k, v Sort) Sort { return Sort("(Array " + string(k) + " " + string(v) + ")") }

// Term is an SMT term with its sort.
type Term struct {
	S    string
	Sort Sort
}

func (t Term) String() string { return t.S }

func app(sort Sort, op string, args ...Term) Term {
	var sb strings.Builder
	sb.WriteString("(")
	sb.WriteString(op)
	for _, a := range args {
		sb.WriteString(" ")
		sb.WriteString(a.S)
	}
	sb.WriteString(")")
	return Term{sb.String(), sort}
}

// addT builds a + b with constant folding, so that index terms stay in the shape quantifier
// patterns can match (select row i rather than select row (+ 0 i)).
func addT(a, b Term) Term {
	if a.S == "0" {
		return b
	}
	if b.S == "0" {
		return a
	}
	var x, y int64
	if _, err := fmt.Sscanf(a.S, "%d", &x); err == nil && fmt.Sprintf("%d", x) == a.S {
		if _, err := fmt.Sscanf(b.S, "%d", &y); err == nil && fmt.Sprintf("%d", y) == b.S {
			return intLit(x + y)
		}
	}
	return app(SInt, "+", a, b)
}

// idxT is the absolute position of element i of a slice with offset off. It is an uninterpreted
// function (defined by an axiom as off + i) so that quantifier patterns over element reads match
// whatever arithmetic shape the index expression has.
func idxT(off, i Term) Term {
	if off.S == "0" {
		return i
	}
	return app(SInt, "idx", off, i)
}

func intLit(n int64) Term {
	if n < 0 {
		return Term{fmt.Sprintf("(- %d)", -n), SInt}
	}
	return Term{fmt.Sprintf("%d", n), SInt}
}
func intLitS(s string) Term {
	if strings.HasPrefix(s, "-") {
		return Term{"(- " + s[1:] + ")", SInt}
	}
	return Term{s, SInt}
}

var (
	tTrue  = Term{"true", SBool}
	tFalse = Term{"false", SBool}
	tZero  = Term{"0", SInt}
	tOne   = Term{"1", SInt}
)

func boolLit(b bool) Term {
	if b {
		return tTrue
	}
	return tFalse
}

func strLit(s string) Term {
	var sb strings.Builder
	sb.WriteByte('"')
	for i := 0; i < len(s); i++ {
		c := s[i]
		switch {
		case c == '"':
			sb.WriteString(`""`)
		case c == '\\' || c < 0x20 || c >= 0x7f:
			fmt.Fprintf(&sb, `\u{%x}`, c)
		default:
			sb.WriteByte(c)
		}
	}
	sb.WriteByte('"')
	return Term{sb.String(), SString}
}

func mkAnd(ts ...Term) Term {
	var xs []Term
	for _, t := range ts {
		if t.S == "true" {
			continue
		}
		if t.S == "false" {
			return tFalse
		}
		xs = append(xs, t)
	}
	switch len(xs) {
	case 0:
		return tTrue
	case 1:
		return xs[0]
	}
	return app(SBool, "and", xs...)
}
func mkOr(ts ...Term) Term {
	var xs []Term
	for _, t := range ts {
		if t.S == "false" {
			continue
		}
		if t.S == "true" {
			return tTrue
		}
		xs = append(xs, t)
	}
	switch len(xs) {
	case 0:
		return tFalse
	case 1:
		return xs[0]
	}
	return app(SBool, "or", xs...)
}
func mkNot(t Term) Term {
	if t.S == "true" {
		return tFalse
	}
	if t.S == "false" {
		return tTrue
	}
	return app(SBool, "not", t)
}
func mkImp(a, b Term) Term {
	if a.S == "true" {
		return b
	}
	if a.S == "false" || b.S == "true" {
		return tTrue
	}
	return app(SBool, "=>", a, b)
}
func mkEq(a, b Term) Term {
	if a.S == b.S {
		return tTrue
	}
	return app(SBool, "=", a, b)
}
func mkIte(c, a, b Term) Term {
	if c.S == "true" {
		return a
	}
	if c.S == "false" {
		return b
	}
	return app(a.Sort, "ite", c, a, b)
}
func mkSelect(arr, idx Term) Term {
	// (Array K V) -> V
	return app(elemSortOf(arr.Sort), "select", arr, idx)
}
func mkStore(arr, idx, v Term) Term { return app(arr.Sort, "store", arr, idx, v) }

// elemSortOf parses "(Array K V)" and returns V.
func elemSortOf(s Sort) Sort {
	_, v := splitArraySort(s)
	return v
}
func keySortOf(s Sort) Sort {
	k, _ := splitArraySort(s)
	return k
}
func splitArraySort(s Sort) (Sort, Sort) {
	str := string(s)
	if !strings.HasPrefix(str, "(Array ") {
		panic("not an array sort: " + str)
	}
	body := str[len("(Array ") : len(str)-1]
	// key is first balanced token
	depth := 0
	for i := 0; i < len(body); i++ {
		switch body[i] {
		case '(':
			depth++
		case ')':
			depth--
		case ' ':
			if depth == 0 {
				return Sort(body[:i]), Sort(body[i+1:])
			}
		}
	}
	panic("bad array sort: " + str)
}

func constArray(s Sort, v Term) Term {
	return Term{"((as const " + string(s) + ") " + v.S + ")", s}
}

// slices
func mkSliceT(arr, off, ln, cp Term) Term { return app(SSlice, "mkslice", arr, off, ln, cp) }
func sArr(s Term) Term                   { return proj("sarr", "mkslice", 0, s, SInt) }
func sOff(s Term) Term                   { return proj("soff", "mkslice", 1, s, SInt) }
func sLen(s Term) Term                   { return proj("slen", "mkslice", 2, s, SInt) }
func sCap(s Term) Term                   { return proj("scap", "mkslice", 3, s, SInt) }

var nilSlice = Term{"(mkslice 0 0 0 0)", SSlice}

func mkIfaceT(tag, val Term) Term { return app(SIface, "mkiface", tag, val) }
func iTag(i Term) Term            { return proj("itag", "mkiface", 0, i, SInt) }
func iVal(i Term) Term            { return proj("ival", "mkiface", 1, i, SInt) }

var nilIface = Term{"(mkiface 0 0)", SIface}

// proj simplifies projections of literal constructor applications.
func proj(sel, ctor string, idx int, t Term, s Sort) Term {
	if strings.HasPrefix(t.S, "("+ctor+" ") {
		parts := splitSexpArgs(t.S)
		if len(parts) > idx+1 {
			return Term{parts[idx+1], s}
		}
	}
	return app(s, sel, t)
}

// splitSexpArgs splits "(f a b c)" into ["f","a","b","c"] at depth 1.
func splitSexpArgs(s string) []string {
	s = s[1 : len(s)-1]
	var out []string
	depth := 0
	start := 0
	inStr := false
	inBar := false
	for i := 0; i < len(s); i++ {
		c := s[i]
		if inStr {
			if c == '"' {
				inStr = false
			}
			continue
		}
		if inBar {
			if c == '|' {
				inBar = false
			}
			continue
		}
		switch c {
		case '"':
			inStr = true
		case '|':
			inBar = true
		case '(':
			depth++
		case ')':
			depth--
		case ' ':
			if depth == 0 {
				if i > start {
					out = append(out, s[start:i])
				}
				start = i + 1
			}
		}
	}
	if start < len(s) {
		out = append(out, s[start:])
	}
	return out
}

func zeroOfSort(s Sort) Term {
	switch s {
	case SInt:
		return tZero
	case SBool:
		return tFalse
	case SString:
		return strLit("")
	case SSlice:
		return nilSlice
	case SIface:
		return nilIface
	}
	if strings.HasPrefix(string(s), "(Array ") {
		return constArray(s, zeroOfSort(elemSortOf(s)))
	}
	panic("zeroOfSort: " + string(s))
}

// sortOfType maps a Go type to its SMT sort.
func sortOfType(t types.Type) Sort {
	switch u := t.Underlying().(type) {
	case *types.Basic:
		switch {
		case u.Info()&types.IsBoolean != 0:
			return SBool
		case u.Info()&types.IsInteger != 0:
			return SInt
		case u.Info()&types.IsString != 0:
			return SString
		case u.Kind() == types.UnsafePointer:
			return SInt
		case u.Kind() == types.UntypedNil:
			return SInt
		case u.Info()&types.IsFloat != 0:
			return SInt // floats are not modelled; treated as opaque ints (never used in scope)
		}
	case *types.Pointer, *types.Map, *types.Chan, *types.Signature:
		return SInt
	case *types.Slice:
		return SSlice
	case *types.Interface:
		return SIface
	case *types.Struct, *types.Tuple, *types.Array:
		return SAgg
	}
	return SAgg
}

// intRange returns the wrap-around range of small integer types that are modelled exactly.
func intRange(t types.Type) (lo, hi int64, ok bool) {
	b, isb := t.Underlying().(*types.Basic)
	if !isb {
		return
	}
	switch b.Kind() {
	case types.Int8:
		return -128, 127, true
	case types.Uint8:
		return 0, 255, true
	case types.Int16:
		return -32768, 32767, true
	case types.Uint16:
		return 0, 65535, true
	}
	return
}

func wrapInt(t types.Type, x Term) Term {
	lo, hi, ok := intRange(t)
	if !ok {
		return x
	}
	n := hi - lo + 1
	// ((x - lo) mod n) + lo
	return app(SInt, "+", app(SInt, "mod", app(SInt, "-", x, intLit(lo)), intLit(n)), intLit(lo))
}

func quoteSym(s string) string {
	s = strings.ReplaceAll(s, "|", "!")
	s = strings.ReplaceAll(s, "\\", "!")
	return "|" + s + "|"
}

const smtPrelude = `(declare-datatypes ((Slice 0)) (((mkslice (sarr Int) (soff Int) (slen Int) (scap Int)))))
(declare-datatypes ((Iface 0)) (((mkiface (itag Int) (ival Int)))))
(declare-fun idx (Int Int) Int)
(assert (forall ((o Int) (i Int)) (! (= (idx o i) (+ o i)) :pattern ((idx o i)) :qid |idx.def|)))
(declare-fun sk (String) Int)
(declare-fun ks (Int) String)
(assert (forall ((s String)) (! (= (ks (sk s)) s) :pattern ((sk s)))))
`
