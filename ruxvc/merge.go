package main

// Path merging at the join point of an if/else diamond: both branches are executed
// separately (their own obligations carry their exact path condition) and the two states
// that reach the immediate post-dominator are merged with ite terms; assertions made inside a
// branch are guarded by the branch condition. This keeps the number of paths linear in the
// number of independent branches instead of exponential.

import (
	"fmt"
	"strings"

	"golang.org/x/tools/go/ssa"
)

type stopRec struct {
	blk   *ssa.BasicBlock
	depth int
	out   *[]*State
}

// ipdoms computes immediate post-dominators of the blocks of fn (nil = exit).
func (ex *Exec) ipdoms(fn *ssa.Function) map[*ssa.BasicBlock]*ssa.BasicBlock {
	if m, ok := ex.pdomCache[fn]; ok {
		return m
	}
	n := len(fn.Blocks)
	// pdom sets as bitsets over block indices plus virtual exit (index n)
	full := make([]bool, n+1)
	for i := range full {
		full[i] = true
	}
	pd := make([][]bool, n+1)
	for i := 0; i <= n; i++ {
		pd[i] = append([]bool(nil), full...)
	}
	ex2 := make([]bool, n+1)
	ex2[n] = true
	pd[n] = ex2
	succs := func(b *ssa.BasicBlock) []int {
		if len(b.Succs) == 0 {
			return []int{n}
		}
		var s []int
		for _, x := range b.Succs {
			s = append(s, x.Index)
		}
		return s
	}
	changed := true
	for changed {
		changed = false
		for i := n - 1; i >= 0; i-- {
			b := fn.Blocks[i]
			nw := append([]bool(nil), full...)
			for _, s := range succs(b) {
				for k := 0; k <= n; k++ {
					nw[k] = nw[k] && pd[s][k]
				}
			}
			nw[i] = true
			for k := 0; k <= n; k++ {
				if nw[k] != pd[i][k] {
					changed = true
				}
			}
			pd[i] = nw
		}
	}
	res := map[*ssa.BasicBlock]*ssa.BasicBlock{}
	for i := 0; i < n; i++ {
		// immediate post-dominator: the strict post-dominator that is post-dominated by all other strict ones
		var cands []int
		for k := 0; k <= n; k++ {
			if k != i && pd[i][k] {
				cands = append(cands, k)
			}
		}
		best := -1
		for _, c := range cands {
			ok := true
			for _, d := range cands {
				if d != c && !pd[c][d] {
					ok = false
				}
			}
			if ok {
				best = c
			}
		}
		if best >= 0 && best < n {
			res[fn.Blocks[i]] = fn.Blocks[best]
		}
	}
	ex.pdomCache[fn] = res
	return res
}

// runBranch executes a branch until the join block; returns the states that reached it.
func (ex *Exec) runBranch(st *State, target, from, join *ssa.BasicBlock) []*State {
	var out []*State
	fr := st.frame
	fr.stops = append(append([]stopRec(nil), fr.stops...), stopRec{join, fr.depth, &out})
	ex.runBlock(st, target, from)
	return out
}

func popStop(st *State) {
	fr := st.frame
	fr.stops = fr.stops[:len(fr.stops)-1]
}

// tryStop: if the block is the pending join of this frame, park the state there.
func (ex *Exec) tryStop(st *State, b, pred *ssa.BasicBlock) bool {
	fr := st.frame
	if len(fr.stops) == 0 {
		return false
	}
	top := fr.stops[len(fr.stops)-1]
	if top.blk != b || top.depth != fr.depth || st.panicking {
		return false
	}
	for p, v := range ex.evalPhis(st, b, pred) {
		fr.vals[p] = v
	}
	st.parkPred = pred
	*top.out = append(*top.out, st)
	return true
}

func guardLine(l string, c Term) string {
	if strings.HasPrefix(l, "(assert ") {
		return "(assert (=> " + c.S + " " + l[len("(assert "):len(l)-1] + "))"
	}
	return l
}

// mergeStates merges two states parked at the same join block. baseLen: number of lines before the fork.
func (ex *Exec) mergeStates(a, b *State, c Term, baseLen int, join *ssa.BasicBlock) *State {
	fa, fb := a.frame, b.frame
	if len(fa.defers) != len(fb.defers) || a.panicking || b.panicking {
		return nil
	}
	for i := range fa.defers {
		if fa.defers[i] != fb.defers[i] {
			return nil
		}
	}
	m := a.clone()
	nc := mkNot(c)
	lines := append([]string(nil), a.lines[:baseLen]...)
	for _, l := range a.lines[baseLen:] {
		lines = append(lines, guardLine(l, c))
	}
	declA := map[string]bool{}
	for _, l := range a.lines[baseLen:] {
		if strings.HasPrefix(l, "(declare-const |H0:") {
			declA[l] = true
		}
	}
	for _, l := range b.lines[baseLen:] {
		if declA[l] {
			continue
		}
		lines = append(lines, guardLine(l, nc))
	}
	m.lines = lines
	for k := range b.declared {
		m.declared[k] = true
	}
	// heap
	keys := map[string]bool{}
	for k := range a.heap {
		keys[k] = true
	}
	for k := range b.heap {
		keys[k] = true
	}
	for k := range keys {
		ta, oka := a.heap[k]
		tb, okb := b.heap[k]
		if !oka {
			ta = Term{h0Name(k), tb.Sort}
			if !m.declared[k] {
				// declared in b's lines already (b wrote it); nothing to do
			}
		}
		if !okb {
			tb = Term{h0Name(k), ta.Sort}
		}
		if ta.S == tb.S {
			m.heap[k] = ta
			continue
		}
		m.heap[k] = ex.define(m, "mrg."+k, mkIte(c, ta, tb))
	}
	// H0 symbols referenced only by one side must be declared in the merged lines: they are, because
	// declarations are kept unguarded from both suffixes.
	if a.next.S != b.next.S {
		m.next = ex.define(m, "next", mkIte(c, a.next, b.next))
	}
	// cells
	for id, vb := range b.cells {
		va, ok := a.cells[id]
		if !ok {
			m.cells[id] = vb
			continue
		}
		mv, ok2 := ex.mergeVal(m, c, va, vb)
		if !ok2 {
			return nil
		}
		m.cells[id] = mv
	}
	// phis of the join block
	for _, in := range join.Instrs {
		p, ok := in.(*ssa.Phi)
		if !ok {
			break
		}
		va, vb := fa.vals[p], fb.vals[p]
		if va == nil || vb == nil {
			return nil
		}
		mv, ok2 := ex.mergeVal(m, c, va, vb)
		if !ok2 {
			return nil
		}
		m.frame.vals[p] = mv
	}
	// loop heads recorded in only one branch are dropped (they belong to loops inside the branch)
	m.trace = append(append([]string(nil), a.trace[:min(len(a.trace), len(b.trace))]...), fmt.Sprintf("merge@b%d", join.Index))
	// keep the common prefix of the traces only
	k := 0
	for k < len(a.trace) && k < len(b.trace) && a.trace[k] == b.trace[k] {
		k++
	}
	m.trace = append(append([]string(nil), a.trace[:k]...), fmt.Sprintf("merge@b%d", join.Index))
	return m
}

func (ex *Exec) mergeVal(st *State, c Term, va, vb *Val) (*Val, bool) {
	if va == vb {
		return va, true
	}
	if va.Addr != nil || vb.Addr != nil || va.Iter != nil || vb.Iter != nil {
		if va.Addr != nil && vb.Addr != nil && *va.Addr == *vb.Addr {
			return va, true
		}
		return nil, false
	}
	if va.Clo != nil || vb.Clo != nil {
		if va.Clo == vb.Clo {
			return va, true
		}
		return nil, false
	}
	if va.Tup != nil || vb.Tup != nil {
		if len(va.Tup) != len(vb.Tup) {
			return nil, false
		}
		r := &Val{Typ: va.Typ}
		for i := range va.Tup {
			x, ok := ex.mergeVal(st, c, va.Tup[i], vb.Tup[i])
			if !ok {
				return nil, false
			}
			r.Tup = append(r.Tup, x)
		}
		return r, true
	}
	if va.Fields != nil || vb.Fields != nil {
		if len(va.Fields) != len(vb.Fields) {
			return nil, false
		}
		r := &Val{Typ: va.Typ}
		for i := range va.Fields {
			x, ok := ex.mergeVal(st, c, va.Fields[i], vb.Fields[i])
			if !ok {
				return nil, false
			}
			r.Fields = append(r.Fields, x)
		}
		return r, true
	}
	if va.T.S == "" && vb.T.S == "" {
		return va, true
	}
	if va.T.Sort != vb.T.Sort {
		return nil, false
	}
	if va.T.S == vb.T.S {
		return va, true
	}
	return &Val{T: ex.define(st, "phi", mkIte(c, va.T, vb.T)), Typ: va.Typ}, true
}

// resumeAtJoin continues a parked state at the join block (phis already evaluated). If an enclosing
// conditional is waiting for the same join block, the state is parked again for it.
func (ex *Exec) resumeAtJoin(st *State, join *ssa.BasicBlock) {
	fr := st.frame
	if len(fr.stops) > 0 {
		top := fr.stops[len(fr.stops)-1]
		if top.blk == join && top.depth == fr.depth && !st.panicking {
			*top.out = append(*top.out, st)
			return
		}
	}
	i := 0
	for i < len(join.Instrs) {
		if _, ok := join.Instrs[i].(*ssa.Phi); !ok {
			break
		}
		i++
	}
	ex.runFrom(st, join, i)
}

// branchIf executes a conditional with merging when possible. Returns after all continuations ran.
func (ex *Exec) branchIf(st *State, b *ssa.BasicBlock, c Term) {
	tb, fb := b.Succs[0], b.Succs[1]
	fr := st.frame
	join := ex.ipdoms(fr.fn)[b]
	li := ex.loopsOf(fr.fn)
	if join != nil {
		if _, isHeader := li.headers[join]; isHeader {
			join = nil
		}
	}
	if ex.noMerge {
		join = nil
	}
	if join == nil {
		st2 := st.clone()
		st.assume(c)
		ex.branch(st, fmt.Sprintf("b%d:T", b.Index))
		ex.runBlock(st, tb, b)
		st2.assume(mkNot(c))
		ex.branch(st2, fmt.Sprintf("b%d:F", b.Index))
		ex.runBlock(st2, fb, b)
		return
	}
	baseLen := len(st.lines)
	st2 := st.clone()
	st.assume(c)
	ex.branch(st, fmt.Sprintf("b%d:T", b.Index))
	ra := ex.runBranch(st, tb, b, join)
	st2.assume(mkNot(c))
	ex.branch(st2, fmt.Sprintf("b%d:F", b.Index))
	rb := ex.runBranch(st2, fb, b, join)
	for _, s := range ra {
		popStop(s)
	}
	for _, s := range rb {
		popStop(s)
	}
	if len(ra) == 1 && len(rb) == 1 {
		if m := ex.mergeStates(ra[0], rb[0], c, baseLen, join); m != nil {
			ex.resumeAtJoin(m, join)
			return
		}
	}
	for _, s := range append(ra, rb...) {
		ex.resumeAtJoin(s, join)
	}
}
