package main

// Bounded stand-ins: clauses no contract can reach are checked on the real code up to a stated bound by an
// in-package test injected through `go test -overlay`. They are labelled bounded in the evidence and are
// never counted among the discharged obligations.

import (
	"context"
	"encoding/json"
	"fmt"
	"os"
	"os/exec"
	"path/filepath"
	"regexp"
	"strconv"
	"strings"
	"time"
)

type BoundedResult struct {
	Name          string `json:"name"`
	Labelled      string `json:"labelled"`
	Bound         string `json:"bound"`
	Cases         int    `json:"cases"`
	Disagreements int    `json:"disagreements"`
	First         string `json:"first_disagreement,omitempty"`
	Seconds       float64 `json:"seconds"`
	Output        string `json:"output,omitempty"`
	Command       string `json:"command"`
	Classes       map[string]BoundedClass `json:"recognised_classes,omitempty"`
}

// BoundedClass: disagreements of one class the stand-in recognises by itself (a candidate known finding).
type BoundedClass struct {
	Count int    `json:"count"`
	First string `json:"first"`
}

var reClass = regexp.MustCompile(`-CLASS (\S+) count=([0-9]+) first=(.*)$`)

var boundedFor = map[string][]struct{ name, file, test, pkgdir, bound string }{
	"C01": {{"patsem", "patsem_test.go.txt", "TestVerifPatsem", ".", "patterns of 1-3 segments over literals {a,b,a.b}, variables {x},{x:\\d+},{y:[a-z]+},{num},{z:(?:a|1)(?:b|2)}, prefix/suffix literals, optional tails of depth <= 2 x paths of <= 3 (thorough 4) segments over 11 segment strings"},
		{"patprio", "patsem_test.go.txt", "TestVerifPatPrio", ".", "every ordered pair of 23 (thorough 29) patterns (static, dynamic with literal / variable first segment, custom regexes, optional tails with and without variables) registered on a fresh router, caching off and on (second lookup answered from the cache), x 399 paths of <= 3 segments; oracle: reference matcher + the selection rule of the property (static first, literal-first-segment group, registration order)"}},
	"C13": {{"rejects", "patsem_test.go.txt", "TestVerifRejects", ".", "13 invalid pattern shapes must panic at registration; 10 valid patterns x 5 option sets x 9 method strings x 18 path strings (incl. empty, white space, non-UTF-8), each lookup twice (cache hit path), must not panic"}},
	"C06": {{"fallback", "roundtrip_test.go.txt", "TestVerifFallback", ".", "3 route shapes (static, dynamic, irregular) x every subset of 5 (thorough 7) registered methods x 16 configurations (fallback option, '/*' route, method-not-allowed option, InterceptAll) x caching for a third of them x 9 request methods x matching/non-matching path x 2 repetitions, through ServeHTTP with the built-in 404/405 handlers; oracle: the decision list of the property incl. the sorted Allow header"}},
	"C16": {{"resttable", "resttable_test.go.txt", "TestVerifRestTable", ".", "generated: 128 controller types (every subset of the seven actions) x with/without Uses() x base paths '/' and '/api/' x (route names + 7 methods x 11 paths under the resource prefix, served action and middleware trace compared with the documented table), plus 7 controllers that must be rejected"}},
	"C11": {{"normeq", "roundtrip_test.go.txt", "TestVerifNormEq", ".", "every string over {a,/,space} up to length 4 (thorough: {a,b,/,space,tab}) as route path P x top level and 3 group prefixes x StrictLastSlash on/off x every such string as request path Q; oracle: a reference normaliser written from the property statement; reached(P,Q) must equal N(P)==N(Q)"}},
	"C15": {{"urlround", "roundtrip_test.go.txt", "TestVerifURLRound", ".", "7 named routes (static, 1-2 variables, custom regexes, literal suffix/prefix around a variable) x all assignments from 14 (thorough 30) values per free variable incl. space, %, ?, #, non-ASCII, braces x 3 argument forms (rux.M, pairs, builder), each with one extra query argument; the built URL is requested through ServeHTTP"}},
	"C17": {{"staticfs", "roundtrip_test.go.txt", "TestVerifStaticFS", ".", "StaticDir/StaticFiles(css|js)/StaticFS/StaticFile over a temp tree with marker files inside and outside the root x 8 prefixes x 17 (thorough 30) traversal forms (.., encoded dots and slashes, backslash, doubled slashes, absolute) x 13 file names"}},
	"C02": {{"patsem", "patsem_test.go.txt", "TestVerifPatsem", ".", "same run as C01: parameter values compared with the reference matcher"}},
}

var reCount = regexp.MustCompile(`cases=([0-9]+) disagreements=([0-9]+)`)

func runBounded(prop, tier, repo, verifDir, replayDir string) []BoundedResult {
	var out []BoundedResult
	for _, b := range boundedFor[prop] {
		t0 := time.Now()
		src := filepath.Join(verifDir, "bounded", b.file)
		pkgDir := filepath.Join(repo, b.pkgdir)
		os.MkdirAll(replayDir, 0o755)
		ovFile := filepath.Join(replayDir, "bounded_"+b.name+"_overlay.json")
		ov := map[string]map[string]string{"Replace": {filepath.Join(pkgDir, "zz_verif_"+b.name+"_test.go"): src}}
		ovb, _ := json.Marshal(ov)
		os.WriteFile(ovFile, ovb, 0o644)
		ctx, cancel := context.WithTimeout(context.Background(), 15*time.Minute)
		cmd := exec.CommandContext(ctx, "go", "test", "-overlay", ovFile, "-vet=off", "-count=1", "-timeout", "600s", "-v", "-run", "^"+b.test+"$", ".")
		cmd.Dir = pkgDir
		cmd.Env = append(os.Environ(), "GOFLAGS=-mod=mod", "GOPROXY=off", "GOSUMDB=off", "GOTOOLCHAIN=local", "VERIF_TIER="+tier)
		o, _ := cmd.CombinedOutput()
		cancel()
		res := BoundedResult{Name: b.name, Labelled: "bounded", Bound: b.bound, Seconds: round2(time.Since(t0).Seconds()),
			Command: fmt.Sprintf("cd %s && VERIF_TIER=%s go test -overlay %s -vet=off -count=1 -v -run '^%s$' .", pkgDir, tier, ovFile, b.test)}
		var keep []string
		for _, l := range strings.Split(string(o), "\n") {
			if strings.HasPrefix(l, strings.ToUpper(b.name)) {
				keep = append(keep, l)
				if m := reCount.FindStringSubmatch(l); m != nil {
					res.Cases, _ = strconv.Atoi(m[1])
					res.Disagreements, _ = strconv.Atoi(m[2])
				}
				if m := reClass.FindStringSubmatch(l); m != nil && strings.HasPrefix(l, strings.ToUpper(b.name)+"-CLASS ") {
					if res.Classes == nil {
						res.Classes = map[string]BoundedClass{}
					}
					n, _ := strconv.Atoi(m[2])
					res.Classes[m[1]] = BoundedClass{n, m[3]}
				}
				if strings.HasPrefix(l, strings.ToUpper(b.name)+"-FIRST ") {
					res.First = strings.TrimPrefix(l, strings.ToUpper(b.name)+"-FIRST ")
				}
			}
		}
		res.Output = strings.Join(keep, "\n")
		if res.Cases == 0 {
			res.Disagreements = -1
			res.First = "the bounded run produced no result: " + trimOut(string(o))
		}
		out = append(out, res)
	}
	return out
}
