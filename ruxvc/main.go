package main

import (
	"encoding/json"
	osexec "os/exec"
	"flag"
	"fmt"
	"os"
	"path/filepath"
	"regexp"
	"sort"
	"strconv"
	"strings"
	"time"
)

type KnownFinding struct {
	Property   string `json:"property"`
	Obligation string `json:"obligation"`
	What       string `json:"what"`
	Input      string `json:"input,omitempty"`
}

type FixedEntry struct {
	Property   string `json:"property"`
	Commit     string `json:"commit"`
	Obligation string `json:"obligation"`
	What       string `json:"what"`
}

type KnownFile struct {
	Findings []KnownFinding `json:"findings"`
	Fixed    []FixedEntry   `json:"fixed"`
}

type Failure struct {
	Obligation string            `json:"obligation"`
	Class      string            `json:"class"`
	Function   string            `json:"function"`
	Clause     string            `json:"clause"`
	Pos        string            `json:"pos,omitempty"`
	Status     string            `json:"status"`
	Path       []string          `json:"path,omitempty"`
	Outputs    map[string]string `json:"solver_outputs,omitempty"`
	Model      string            `json:"model,omitempty"`
	ModelBy    string            `json:"model_solver,omitempty"`
	Replay     *ReplayResult     `json:"replay,omitempty"`
	SMT        string            `json:"smt_file,omitempty"`
	Property   string            `json:"property"`
	ToolError  bool              `json:"tool_error,omitempty"`
}

func main() {
	repo := flag.String("repo", envOr("VERIF_REPO", "/repo"), "repository to verify")
	prop := flag.String("prop", "", "property id")
	tier := flag.String("tier", envOr("VERIF_TIER", "quick"), "quick|thorough")
	verifDir := flag.String("verif", "/verif", "verif directory")
	dumpFn := flag.String("dump", "", "dump obligations (SMT) of functions whose key contains this string")
	list := flag.Bool("list", false, "list obligations instead of solving")
	onlyFn := flag.String("fn", "", "restrict to functions whose key contains this string (debugging)")
	workers := flag.Int("j", 16, "parallel solver processes")
	verbose := flag.Bool("v", false, "verbose")
	noReplay := flag.Bool("noreplay", false, "do not try to replay counterexamples")
	replayFile := flag.String("replayfile", "", "re-run the replay stored in this violation file")
	noRetry := flag.Bool("noretry", false, "no second chance for undecided obligations (self-test and mutation runs, where an alarm is the expected outcome)")
	flag.Parse()
	if *replayFile != "" {
		os.Exit(rerunReplay(*replayFile))
	}
	if *prop == "" && *dumpFn == "" && !*list {
		fmt.Fprintln(os.Stderr, "usage: ruxvc -prop Cxx [-tier quick|thorough]")
		os.Exit(2)
	}
	t0 := time.Now()
	seed, _ := strconv.Atoi(envOr("VERIF_SEED", "0"))

	evidencePath := filepath.Join(*verifDir, "evidence", *prop+".json")
	replayDir := filepath.Join(*verifDir, "replays", *prop)
	os.MkdirAll(filepath.Dir(evidencePath), 0o755)

	toolFail := func(msg string) {
		os.MkdirAll(replayDir, 0o755)
		f := filepath.Join(replayDir, "tool-error.json")
		b, _ := json.MarshalIndent(map[string]any{"property": *prop, "class": "tool", "obligation": "tool:load", "error": msg}, "", " ")
		os.WriteFile(f, b, 0o644)
		writeEvidence(evidencePath, *prop, *tier, seed, 0, 0, nil, nil, nil, time.Since(t0).Seconds(), 1, map[string]any{"tool_error": msg})
		fmt.Printf("TOOL-ERROR %s\n", msg)
		fmt.Printf("VIOLATION property=%s replay=%s class=tool obligation=tool:load no-failing-input-found\n", *prop, f)
		os.Exit(1)
	}

	ld, err := loadRepo(*repo)
	if err != nil {
		toolFail(err.Error())
	}
	ex := newExec(ld)
	loadTime := time.Since(t0).Seconds()

	// run every function under contract
	var keys []string
	for k, c := range ld.ct.Funcs {
		if c.Kind == "func" {
			keys = append(keys, k)
		}
	}
	sort.Strings(keys)
	fnTags := map[string][]string{}
	for _, k := range keys {
		c := ld.ct.Funcs[k]
		if *onlyFn != "" && !strings.Contains(k, *onlyFn) {
			continue
		}
		if len(c.Tags) == 0 {
			ex.errs = append(ex.errs, ToolError{k, "contract has no property tags"})
			continue
		}
		fnTags[k] = contractAllTags(ld.ct, c)
		fn := ld.funcs[k]
		if fn == nil {
			ex.errs = append(ex.errs, ToolError{k, "function under contract not found in the repository (renamed or removed?)"})
			continue
		}
		ex.verifyFunc(fn, c)
	}
	var lnames []string
	for n := range ld.ct.Lemmas {
		lnames = append(lnames, n)
	}
	sort.Strings(lnames)
	for _, n := range lnames {
		if *onlyFn == "" || strings.Contains("lemma:"+n, *onlyFn) {
			ex.topKey = "lemma:" + n
			ex.proveLemma(ld.ct.Lemmas[n])
		}
	}
	execTime := time.Since(t0).Seconds() - loadTime

	if *dumpFn != "" {
		for _, o := range ex.obls {
			if strings.Contains(o.Name, *dumpFn) {
				sc := ex.script(o, true)
				if os.Getenv("RUXVC_DUMP_ABSTRACT") != "" {
					if a, ok := abstractStrings(ex.script(o, false)); ok {
						sc = a
					}
				}
				fmt.Printf(";;;; %s (inst %d) tags=%v\n;; %s\n;; path: %s\n%s\n", o.Name, o.Inst, o.Tags, o.Desc, strings.Join(o.Trace, " "), sc)
			}
		}
		for _, e := range ex.errs {
			fmt.Printf("TOOL-ERROR %s: %s\n", e.Fn, e.Msg)
		}
		return
	}

	// select obligations of the property
	// A property's check consists of the obligations tagged with it and of every obligation of every
	// function under contract (or lemma) whose contract the proofs of those functions apply, transitively:
	// a callee's postcondition that is assumed at a call must be discharged in the same run.
	var sel []*Obligation
	depFns := map[string]bool{}
	if *prop != "" {
		base := map[string]bool{}
		for _, o := range ex.obls {
			if hasTag(o.Tags, *prop) {
				base[o.Fn] = true
			}
		}
		work := []string{}
		for f := range base {
			work = append(work, f)
		}
		seen := map[string]bool{}
		for len(work) > 0 {
			f := work[len(work)-1]
			work = work[:len(work)-1]
			if seen[f] {
				continue
			}
			seen[f] = true
			for g := range ex.callsOf[f] {
				// g's contract is applied in f's proof: everything it promises has to be discharged in this run,
				// also when g carries obligations of this property itself (seed C13-52: the handler limit that
				// AddRoute relies on was a clause of appendGroupInfo tagged for two other properties only)
				depFns[g] = true
				if !seen[g] {
					work = append(work, g)
				}
			}
		}
		for f := range seen {
			if !base[f] {
				depFns[f] = true
			}
		}
	}
	for _, o := range ex.obls {
		if *prop == "" || hasTag(o.Tags, *prop) || depFns[o.Fn] {
			sel = append(sel, o)
		}
	}
	if *list {
		counts := map[string]int{}
		var names []string
		for _, o := range sel {
			if counts[o.Name] == 0 {
				names = append(names, o.Name)
			}
			counts[o.Name]++
		}
		for _, n := range names {
			fmt.Printf("%4d  %s\n", counts[n], n)
		}
		for _, e := range ex.errs {
			fmt.Printf("TOOL-ERROR %s: %s\n", e.Fn, e.Msg)
		}
		fmt.Printf("%d obligations, %d distinct, %d tool errors\n", len(sel), len(names), len(ex.errs))
		return
	}

	timeoutS := 15
	thorough := *tier == "thorough"
	if thorough {
		timeoutS = 60
	}
	tmp, _ := os.MkdirTemp("", "ruxvc")
	if os.Getenv("RUXVC_KEEP") == "" {
		defer os.RemoveAll(tmp)
	} else {
		fmt.Println("solver files kept in", tmp)
	}
	ts := time.Now()
	ex.solveAll(sel, tmp, timeoutS, thorough, *workers)
	// second chance for undecided obligations (machine load must not turn into an alarm): one retry with
	// a three times longer limit; an obligation refuted with a model (sat) is not retried
	var retry []*Obligation
	knownEarly := loadKnown(filepath.Join(*verifDir, "known_findings.json"))
	isKnownObl := map[string]bool{}
	for _, k := range knownEarly.Findings {
		isKnownObl[k.Obligation] = true
	}
	for _, o := range sel {
		if isKnownObl[o.Name] {
			continue // a listed finding is expected to stay undecided or refuted: no second chance needed
		}
		if !o.Cover && (o.Result.Status == "unknown" || o.Result.Status == "timeout" || o.Result.Status == "error") {
			retry = append(retry, o)
		}
	}
	if len(retry) > 0 && len(retry) <= 40 && !*noRetry {
		ex.solveAll(retry, tmp, timeoutS*3, thorough, *workers)
	}
	solveWall := time.Since(ts).Seconds()

	known := loadKnown(filepath.Join(*verifDir, "known_findings.json"))
	knownByObl := map[string]KnownFinding{}
	for _, k := range known.Findings {
		if k.Property == *prop {
			knownByObl[k.Obligation] = k
		}
	}

	// aggregate
	nObl, nDis := 0, 0
	solverWins := map[string]int{}
	solverSecs := 0.0
	failedByName := map[string]*Obligation{}
	var failedNames []string
	coverByFn := map[string][2]int{} // fn -> [sat-or-inconclusive, unsat]
	knownSeen := map[string]bool{}
	otherKnown := map[string]bool{}
	samples := []any{}
	fnSet := map[string]bool{}
	for _, o := range sel {
		r := o.Result
		solverSecs += r.Seconds
		fnSet[o.Fn] = true
		if o.Class == "cover-call" {
			if r.Status == "unsat-after-sat-before" && failedByName[o.Name] == nil {
				failedByName[o.Name] = o
				failedNames = append(failedNames, o.Name)
			}
			continue
		}
		if o.Cover {
			c := coverByFn[o.Fn+"|"+o.Name]
			if r.Status == "unsat" {
				c[1]++
			} else {
				c[0]++
			}
			coverByFn[o.Fn+"|"+o.Name] = c
			continue
		}
		if isKnownObl[o.Name] && knownByObl[o.Name].Obligation == "" {
			// a listed finding of another property, met in a function this property depends on: it is
			// reported by that property's check, not here
			otherKnown[o.Name] = true
			continue
		}
		if _, isKnown := knownByObl[o.Name]; isKnown {
			if r.Status != "unsat" {
				knownSeen[o.Name] = true
			}
			continue // known findings are not counted as obligations of the proof
		}
		nObl++
		if r.Status == "unsat" {
			nDis++
			solverWins[r.Solver]++
			if len(samples) < 4 && o.Goal.S != "true" && (nObl%7 == 1) {
				samples = append(samples, map[string]any{"obligation": o.Name, "clause": o.Desc, "goal_smt": trimOut(o.Goal.S), "decided_by": r.Solver, "seconds": r.Seconds})
			}
		} else if failedByName[o.Name] == nil {
			failedByName[o.Name] = o
			failedNames = append(failedNames, o.Name)
		}
	}
	if len(samples) == 0 {
		for _, o := range sel {
			if !o.Cover && o.Result.Status == "unsat" {
				samples = append(samples, map[string]any{"obligation": o.Name, "clause": o.Desc, "goal_smt": trimOut(o.Goal.S), "decided_by": o.Result.Solver})
				break
			}
		}
	}

	var failures []Failure
	violations := 0
	os.RemoveAll(replayDir)
	emit := func(f Failure) {
		os.MkdirAll(replayDir, 0o755)
		file := filepath.Join(replayDir, sanitizeFile(f.Obligation)+".json")
		b, _ := json.MarshalIndent(f, "", " ")
		os.WriteFile(file, b, 0o644)
		violations++
		failures = append(failures, f)
		suffix := ""
		if f.Replay == nil || !f.Replay.Reproduced {
			suffix = " no-failing-input-found"
		}
		fmt.Printf("VIOLATION property=%s replay=%s obligation=%s%s\n", *prop, file, f.Obligation, suffix)
	}

	// tool errors relevant to this property
	for _, e := range ex.errs {
		if *prop != "" && !hasTag(fnTags[e.Fn], *prop) && len(fnTags[e.Fn]) > 0 && !depFns[e.Fn] {
			continue
		}
		fmt.Printf("TOOL-ERROR %s: %s\n", shortFn(e.Fn), e.Msg)
		emit(Failure{Obligation: "tool:" + shortFn(e.Fn), Class: "tool", Function: e.Fn, Clause: e.Msg, Status: "tool-error", Property: *prop, ToolError: true})
	}

	// vacuity: a function whose every cover of one kind is unsat is vacuous
	for k, c := range coverByFn {
		if c[0] == 0 && c[1] > 0 {
			parts := strings.SplitN(k, "|", 2)
			emit(Failure{Obligation: parts[1], Class: "cover", Function: parts[0], Clause: "vacuity: the preconditions / every return path are unsatisfiable, so nothing was proved", Status: "unsat", Property: *prop})
		}
	}

	sort.Strings(failedNames)
	for _, n := range failedNames {
		o := failedByName[n]
		f := Failure{Obligation: o.Name, Class: o.Class, Function: o.Fn, Clause: o.Desc, Pos: o.Pos, Status: o.Result.Status, Path: o.Trace, Outputs: o.Result.Outputs, Property: *prop}
		os.MkdirAll(replayDir, 0o755)
		smtFile := filepath.Join(replayDir, sanitizeFile(o.Name)+".smt2")
		os.WriteFile(smtFile, []byte(ex.script(o, true)), 0o644)
		f.SMT = smtFile
		by, model := ex.modelFor(o, tmp, "m", timeoutS)
		if model != "" {
			f.Model, f.ModelBy = trimModel(model), by
		}
		if !*noReplay && (o.Class == "safe" || o.Class == "ensures") {
			f.Replay = ex.tryReplay(o, model, *repo, replayDir)
		}
		emit(f)
	}

	// bounded stand-ins of this property (labelled bounded, not counted as proof)
	bounded := runBounded(*prop, *tier, *repo, *verifDir, replayDir)
	for _, b := range bounded {
		// classes of disagreements the stand-in itself recognises: a violation unless the class is listed
		// in the known-findings file
		var cls []string
		for c := range b.Classes {
			cls = append(cls, c)
		}
		sort.Strings(cls)
		for _, c := range cls {
			name := "bounded:" + b.Name + ":" + c
			if _, isKnown := knownByObl[name]; isKnown {
				knownSeen[name] = true
				continue
			}
			os.MkdirAll(replayDir, 0o755)
			file := filepath.Join(replayDir, "bounded_"+b.Name+"_"+sanitizeFile(c)+".json")
			bb, _ := json.MarshalIndent(map[string]any{"property": *prop, "class": "bounded", "obligation": name, "failing_input": b.Classes[c].First, "count": b.Classes[c].Count, "result": b}, "", " ")
			os.WriteFile(file, bb, 0o644)
			violations++
			fmt.Printf("VIOLATION property=%s replay=%s obligation=%s input=%s\n", *prop, file, name, strconv.Quote(b.Classes[c].First))
		}
		if b.Disagreements != 0 {
			os.MkdirAll(replayDir, 0o755)
			file := filepath.Join(replayDir, "bounded_"+b.Name+".json")
			bb, _ := json.MarshalIndent(map[string]any{"property": *prop, "class": "bounded", "obligation": "bounded:" + b.Name, "failing_input": b.First, "result": b}, "", " ")
			os.WriteFile(file, bb, 0o644)
			violations++
			fmt.Printf("VIOLATION property=%s replay=%s obligation=bounded:%s input=%s\n", *prop, file, b.Name, strconv.Quote(b.First))
		} else {
			fmt.Printf("bounded stand-in %s: %d cases, 0 unlisted disagreements (%.1fs) [labelled bounded]\n", b.Name, b.Cases, b.Seconds)
		}
	}

	// known findings
	var knownNames []string
	for n := range knownByObl {
		knownNames = append(knownNames, n)
	}
	sort.Strings(knownNames)
	var knownOut []string
	for _, n := range knownNames {
		k := knownByObl[n]
		if knownSeen[n] {
			fmt.Printf("KNOWN-FINDING: property=%s %s [%s]\n", *prop, k.What, k.Obligation)
			knownOut = append(knownOut, k.Obligation+": "+k.What)
		} else {
			fmt.Printf("NOTE stale-known-finding property=%s obligation=%s (no longer fails or no longer generated)\n", *prop, n)
		}
	}

	for n := range otherKnown {
		fmt.Printf("NOTE obligation %s of a function this property depends on is a listed finding of another property\n", n)
	}
	if nObl == 0 && violations == 0 {
		emit(Failure{Obligation: "tool:no-obligations", Class: "tool", Clause: "no obligation was generated for this property (vacuous check)", Status: "tool-error", Property: *prop, ToolError: true})
	}

	var fns []string
	for f := range fnSet {
		fns = append(fns, shortFn(f))
	}
	sort.Strings(fns)
	trusted := trustedBase(ex, fnSet)
	extra := map[string]any{
		"functions_under_contract": fns,
		"solver_wins":              solverWins,
		"solver_cpu_s":             round2(solverSecs),
		"solve_wall_s":             round2(solveWall),
		"load_s":                   round2(loadTime),
		"symbolic_execution_s":     round2(execTime),
		"obligation_instances":     len(sel),
		"known_findings":           knownOut,
		"failed":                   failedNames,
		"timeout_per_solver_s":     timeoutS,
		"contract_lines":           ld.ct.AllLines,
		"bounded_standins":         bounded,
	}
	if *verbose {
		for _, o := range sel {
			fmt.Printf("  %-8s %-8s %6.2fs %s\n", o.Result.Status, o.Result.Solver, o.Result.Seconds, o.Name)
		}
	}
	writeEvidence(evidencePath, *prop, *tier, seed, nObl, nDis, samples, trusted, ex.assumptionList(), time.Since(t0).Seconds(), violations, extra)
	fmt.Printf("property %s: %d obligations, %d discharged, %d violations, %d known findings (%.1fs)\n", *prop, nObl, nDis, violations, len(knownOut), time.Since(t0).Seconds())
	if violations > 0 {
		os.RemoveAll(tmp) // deferred calls do not run on os.Exit
		os.Exit(1)
	}
}

func contractAllTags(ct *ContractTable, c *Contract) []string {
	set := map[string]bool{}
	for _, t := range c.Tags {
		set[t] = true
	}
	for _, cls := range [][]*Clause{c.Requires, c.Ensures, c.Panics} {
		for _, cl := range cls {
			for _, t := range cl.Tags {
				set[t] = true
			}
		}
	}
	for _, l := range ct.Loops {
		if l.FnKey == c.Key {
			for _, t := range l.Tags {
				set[t] = true
			}
			for _, cl := range l.Invariants {
				for _, t := range cl.Tags {
					set[t] = true
				}
			}
		}
	}
	var out []string
	for t := range set {
		out = append(out, t)
	}
	sort.Strings(out)
	return out
}

func round2(x float64) float64 { return float64(int(x*100+0.5)) / 100 }

func envOr(k, d string) string {
	if v := os.Getenv(k); v != "" {
		return v
	}
	return d
}

var reUnsafe = regexp.MustCompile(`[^A-Za-z0-9_.#:@-]+`)

func sanitizeFile(s string) string {
	s = reUnsafe.ReplaceAllString(s, "_")
	if len(s) > 150 {
		s = s[:150]
	}
	return s
}

func trimModel(m string) string {
	if len(m) > 20000 {
		return m[:20000] + "\n...(truncated)"
	}
	return m
}

func loadKnown(path string) *KnownFile {
	k := &KnownFile{}
	b, err := os.ReadFile(path)
	if err != nil {
		return k
	}
	if err := json.Unmarshal(b, k); err != nil {
		fmt.Fprintf(os.Stderr, "warning: cannot parse %s: %v\n", path, err)
	}
	return k
}

func trustedBase(ex *Exec, fns map[string]bool) []string {
	out := []string{
		"go/types + go/ssa (x/tools v0.29.0) translate the source faithfully; ruxvc's semantics of the SSA instruction set",
		"z3 4.8.12 / z3 5.1.0 / cvc5 1.0.3 answer unsat only when so",
	}
	// what the proofs of the functions of this run assume (extern contracts, relies, determinism)
	seen := map[string]bool{}
	var ks []string
	for f := range fns {
		for k := range ex.assumedBy[f] {
			if !seen[k] {
				seen[k] = true
				ks = append(ks, k)
			}
		}
	}
	sort.Strings(ks)
	return append(out, ks...)
}

func (ex *Exec) assumptionList() []string {
	return []string{
		"int is mathematical (no 2^63 wrap-around); int8/uint8/int16/uint16 are exact",
		"strings are byte strings over code points 0-255 in the SMT theory of strings",
		"memory is sequentially consistent and single-threaded inside one function; concurrency enters only through ownership/frame obligations",
		"function values are compared only with nil",
		"every reference stored in the pre-state heap is allocated (below the allocation counter)",
		"garbage collection, allocation failure and stack overflow are ignored",
	}
}

func writeEvidence(path, prop, tier string, seed, nObl, nDis int, samples []any, trusted, assumptions []string, wall float64, violations int, extra map[string]any) {
	if samples == nil {
		samples = []any{}
	}
	cov := map[string]any{
		"obligations":  nObl,
		"discharged":   nDis,
		"checker_cmd":  fmt.Sprintf("/verif/check %s %s", prop, tier),
		"trusted_base": trusted,
		"samples":      samples,
	}
	for k, v := range extra {
		cov[k] = v
	}
	if trusted == nil {
		cov["trusted_base"] = []string{}
	}
	ev := map[string]any{
		"property_id": prop,
		"tier":        tier,
		"seed":        seed,
		"level":       "proof",
		"coverage":    cov,
		"assumptions": assumptions,
		"wall_s":      round2(wall),
		"violations":  violations,
	}
	if assumptions == nil {
		ev["assumptions"] = []string{}
	}
	b, _ := json.MarshalIndent(ev, "", " ")
	os.WriteFile(path, b, 0o644)
}

// rerunReplay re-executes the Go test stored in a violation file against the current tree.
func rerunReplay(file string) int {
	b, err := os.ReadFile(file)
	if err != nil {
		fmt.Println("cannot read", file, err)
		return 2
	}
	var f Failure
	if err := json.Unmarshal(b, &f); err != nil {
		fmt.Println("cannot parse", file, err)
		return 2
	}
	fmt.Printf("obligation: %s\nclause: %s\nstatus: %s\n", f.Obligation, f.Clause, f.Status)
	if f.Replay == nil || f.Replay.Command == "" {
		fmt.Println("no executable replay is stored for this obligation (no-failing-input-found); solver outputs and the SMT query are in the file")
		return 1
	}
	if f.Replay.TestSource != "" {
		os.MkdirAll(filepath.Dir(f.Replay.TestFile), 0o755)
		os.WriteFile(f.Replay.TestFile, []byte(f.Replay.TestSource), 0o644)
	}
	cmd := execCommand("sh", "-c", f.Replay.Command)
	out, _ := cmd.CombinedOutput()
	fmt.Println(string(out))
	if strings.Contains(string(out), "REPLAY panicked=true") && f.Class == "safe" || strings.Contains(string(out), "REPLAY clause=false") {
		fmt.Println("reproduced: the real code violates the obligation on this input")
		return 1
	}
	fmt.Println("not reproduced on the current tree")
	return 0
}

var execCommand = osexec.Command
