package main

import (
	"fmt"
	"go/constant"
	"go/types"
	"sort"
	"strings"

	"golang.org/x/tools/go/ssa"
)

// SpecEnv evaluates spec expressions to SMT terms.
type SpecEnv struct {
	ex       *Exec
	st       *State
	vars     map[string]*Val
	cur      HeapView
	old      HeapView
	pkg      *types.Package
	nextOld  Term
	depth    int
	iter     *MapIter
	calleeFn *ssa.Function   // set while a callee's contract is applied at a call site: $-names are the callee's
	dollar   map[string]*Val // the (existential) values standing for them
	entry    HeapView        // when set: what entry(e) refers to (default: the entry of the function under contract)
	pol      int             // +1: the expression stands where it has to be proved, -1: under one negation, 0: unknown / assumed
}

func (env *SpecEnv) withPol(p int) *SpecEnv {
	n := *env
	n.pol = p
	return &n
}

func (env *SpecEnv) fail(f string, a ...any) {
	env.ex.fail("spec: "+f, a...)
}

func (env *SpecEnv) evalBool(cl *Clause) Term {
	v := env.eval(cl.E)
	if v.T.Sort != SBool {
		env.fail("clause %q (%s:%d) is not boolean", cl.Src, cl.File, cl.Line)
	}
	return v.T
}

func (env *SpecEnv) with(vars map[string]*Val) *SpecEnv {
	n := *env
	n.vars = map[string]*Val{}
	for k, v := range env.vars {
		n.vars[k] = v
	}
	for k, v := range vars {
		n.vars[k] = v
	}
	return &n
}

var specIntT = types.Typ[types.Int]
var specBoolT = types.Typ[types.Bool]
var specStrT = types.Typ[types.String]

// refType is the spec type `ref`: an untyped reference.
var refType = types.NewNamed(types.NewTypeName(0, nil, "ref", nil), types.Typ[types.UnsafePointer], nil)

func (env *SpecEnv) specType(name string) types.Type {
	switch name {
	case "int":
		return specIntT
	case "bool":
		return specBoolT
	case "string":
		return specStrT
	case "ref":
		return refType
	case "any":
		return types.NewInterfaceType(nil, nil)
	}
	t := env.ex.ld.resolveType(name, env.pkg)
	if t == nil {
		env.fail("unknown type %q", name)
	}
	return t
}

func (ex *Exec) ghostSort(g *GhostDecl, pkg *types.Package) Sort {
	env := &SpecEnv{ex: ex, pkg: pkg}
	so := sortOfType(env.specType(g.ValType))
	for i := len(g.KeySort) - 1; i >= 0; i-- {
		so = arraySort(sortOfType(env.specType(g.KeySort[i])), so)
	}
	return so
}

// asKey converts a value used as a ghost-map key: interfaces and slices are keyed by their reference.
func (ex *Exec) asKey(v *Val) Term {
	switch v.T.Sort {
	case SIface:
		return iVal(v.T)
	case SSlice:
		return sArr(v.T)
	}
	return v.T
}

func (env *SpecEnv) eval(e Expr) *Val {
	ex := env.ex
	switch e := e.(type) {
	case *EInt:
		return scalar(intLitS(e.V), specIntT)
	case *EStr:
		return scalar(strLit(e.V), specStrT)
	case *EIdent:
		return env.ident(e.Name)
	case *EOld:
		n := *env
		n.cur = env.old
		return n.eval(e.X)
	case *EUn:
		if e.Op == "!" {
			return scalar(mkNot(env.withPol(-env.pol).eval(e.X).T), specBoolT)
		}
		x := env.withPol(0).eval(e.X)
		switch e.Op {
		case "!":
			return scalar(mkNot(x.T), specBoolT)
		case "-":
			return scalar(app(SInt, "-", x.T), x.Typ)
		case "&":
			// address of an embedded struct value: same reference, pointer type
			if _, ok := structOf(x.Typ); ok {
				return scalar(x.T, types.NewPointer(x.Typ))
			}
			env.fail("& of non-struct value %s", e.X)
		}
	case *EBin:
		return env.binary(e)
	case *ECond:
		c := env.withPol(0).eval(e.C)
		a, b := env.eval(e.A), env.eval(e.B)
		return &Val{T: mkIte(c.T, a.T, b.T), Typ: a.Typ}
	case *EField:
		// pkg.Var: a global of another package
		if id, ok := e.X.(*EIdent); ok {
			if _, isVar := env.vars[id.Name]; !isVar && (env.pkg == nil || env.pkg.Scope().Lookup(id.Name) == nil) {
				for _, p := range ex.ld.byName[id.Name] {
					if _, ok := p.Scope().Lookup(e.Name).(*types.Var); ok {
						n := *env
						n.pkg = p
						return n.ident(e.Name)
					}
					if _, ok := p.Scope().Lookup(e.Name).(*types.Const); ok {
						n := *env
						n.pkg = p
						return n.ident(e.Name)
					}
				}
			}
		}
		x := env.eval(e.X)
		return env.field(x, e.Name, e)
	case *EIndex:
		x := env.eval(e.X)
		i := env.eval(e.I)
		return env.index(x, i, e)
	case *ESlice:
		x := env.eval(e.X)
		var lo, hi Term
		lo = tZero
		if e.Lo != nil {
			lo = env.eval(e.Lo).T
		}
		switch x.T.Sort {
		case SString:
			if e.Hi != nil {
				hi = env.eval(e.Hi).T
			} else {
				hi = app(SInt, "str.len", x.T)
			}
			return scalar(app(SString, "str.substr", x.T, lo, app(SInt, "-", hi, lo)), x.Typ)
		case SSlice:
			if e.Hi != nil {
				hi = env.eval(e.Hi).T
			} else {
				hi = sLen(x.T)
			}
			return scalar(mkSliceT(sArr(x.T), addT(sOff(x.T), lo), app(SInt, "-", hi, lo), app(SInt, "-", sCap(x.T), lo)), x.Typ)
		}
		env.fail("slice expression on %s", x.T.Sort)
	case *EQuant:
		if !e.Forall && e.Witness != nil && env.pol > 0 {
			// to be proved: the stated witness is used instead of the existential
			w := env.withPol(0).eval(e.Witness)
			t := env.specType(e.Vars[0].Type)
			nv := *w
			nv.Typ = t
			return env.with(map[string]*Val{e.Vars[0].Name: &nv}).eval(e.Body)
		}
		vars := map[string]*Val{}
		var decl []string
		for _, q := range e.Vars {
			t := env.specType(q.Type)
			so := sortOfType(t)
			if so == SAgg {
				env.fail("quantified variable %s of aggregate type", q.Name)
			}
			ex.nfresh++
			n := quoteSym(fmt.Sprintf("q.%s!%d", q.Name, ex.nfresh))
			vars[q.Name] = scalar(Term{n, so}, t)
			decl = append(decl, fmt.Sprintf("(%s %s)", n, so))
		}
		body := env.with(vars).eval(e.Body)
		q := "exists"
		if e.Forall {
			q = "forall"
		}
		ex.nfresh++
		qid := fmt.Sprintf("spec.%s.%d", strings.Join(func() []string {
			var ns []string
			for _, v := range e.Vars {
				ns = append(ns, v.Name)
			}
			return ns
		}(), "_"), ex.nfresh)
		var vnames []string
		for _, q := range e.Vars {
			vnames = append(vnames, vars[q.Name].T.S)
		}
		pats := ""
		if ex.autoPat {
			pats = autoPatterns(body.T.S, vnames)
		}
		return scalar(Term{fmt.Sprintf("(%s (%s) (! %s%s :qid |%s|))", q, strings.Join(decl, " "), body.T.S, pats, qid), SBool}, specBoolT)
	case *ECall:
		return env.call(e)
	case *EType:
		env.fail("type %s used as a value", e.T)
	}
	env.fail("cannot evaluate %s", e)
	return nil
}

// dollarValue resolves $-names: values of the current function that are not loop variables, named by
// instruction kind and ordinal in source order: $makemapN, $makesliceN, $lookupN, $call_<func>_N.
func (env *SpecEnv) dollarValue(name string) *Val {
	st := env.st
	if st == nil || st.frame == nil {
		env.fail("%s used outside a function body", name)
	}
	fr := st.frame
	if env.calleeFn != nil {
		// at a call site the callee's internal values are unknown: one arbitrary value per name
		if v, ok := env.dollar[name]; ok {
			return v
		}
		counts := map[string]int{}
		for _, b := range env.calleeFn.Blocks {
			for _, in := range b.Instrs {
				if p, ok := in.(*ssa.Phi); ok && "$phi_"+p.Comment == name {
					v := env.ex.freshVal(st, "callee.phi."+p.Comment, p.Type())
					env.dollar[name] = v
					return v
				}
				kind := dollarKind(in)
				if kind == "" {
					continue
				}
				n := fmt.Sprintf("$%s%d", kind, counts[kind])
				counts[kind]++
				if n == name {
					v := env.ex.freshVal(st, "callee"+strings.ReplaceAll(name, "$", "."), in.(ssa.Value).Type())
					if v.Tup != nil {
						v = v.Tup[0]
					}
					env.dollar[name] = v
					return v
				}
			}
		}
		env.fail("no value named %s in %s (the function changed?)", name, env.calleeFn.String())
	}
	if strings.HasPrefix(name, "$phi_") {
		// $phi_<var>: the value of the first phi with that source name that is computed on this path
		want := strings.TrimPrefix(name, "$phi_")
		var first *ssa.Phi
		for _, b := range fr.fn.Blocks {
			for _, in := range b.Instrs {
				if p, ok := in.(*ssa.Phi); ok && p.Comment == want {
					if first == nil {
						first = p
					}
					if v, ok := fr.vals[p]; ok {
						return v
					}
				}
			}
		}
		if first != nil {
			// exists, but not on this path: an arbitrary value (see the $-names below)
			return env.ex.freshVal(st, "notcomputed", first.Type())
		}
		env.fail("no phi named %s in %s", want, fr.fn.String())
	}
	counts := map[string]int{}
	for _, b := range fr.fn.Blocks {
		for _, in := range b.Instrs {
			kind := dollarKind(in)
			if kind == "" {
				continue
			}
			n := fmt.Sprintf("$%s%d", kind, counts[kind])
			counts[kind]++
			if n == name {
				v, ok := fr.vals[in.(ssa.Value)]
				if !ok {
					// The instruction was not executed on this path (an earlier return): the name stands for an
					// arbitrary value of its type. A clause that is guarded by the condition under which the
					// value exists is unaffected; an unguarded one cannot be proved from an unconstrained value.
					v = env.ex.freshVal(st, "notcomputed", in.(ssa.Value).Type())
				}
				if v.Tup != nil {
					return v.Tup[0]
				}
				return v
			}
		}
	}
	env.fail("no value named %s in %s (the function changed?)", name, fr.fn.String())
	return nil
}

func (env *SpecEnv) ident(name string) *Val {
	ex := env.ex
	if strings.HasPrefix(name, "$") {
		return env.dollarValue(name)
	}
	if v, ok := env.vars[name]; ok {
		if v == nil {
			env.fail("variable %s has no value here", name)
		}
		return v
	}
	switch name {
	case "nil":
		return scalar(tZero, refType)
	case "true":
		return scalar(tTrue, specBoolT)
	case "false":
		return scalar(tFalse, specBoolT)
	case "panicking":
		return scalar(boolLit(env.st.panicking), specBoolT)
	}
	if env.pkg != nil {
		if obj := env.pkg.Scope().Lookup(name); obj != nil {
			switch o := obj.(type) {
			case *types.Const:
				switch o.Val().Kind() {
				case constant.Int:
					return scalar(intLitS(o.Val().ExactString()), o.Type())
				case constant.String:
					return scalar(strLit(constant.StringVal(o.Val())), o.Type())
				case constant.Bool:
					return scalar(boolLit(constant.BoolVal(o.Val())), o.Type())
				}
			case *types.Var:
				t := o.Type()
				gname := o.Pkg().Path() + "." + o.Name()
				if _, isS := structOf(t); isS {
					return scalar(ex.globRef(gname), t)
				}
				so := sortOfType(t)
				if so == SAgg {
					env.fail("global %s of aggregate type", name)
				}
				return scalar(env.cur.comp("V:"+gname, so), t)
			case *types.Func:
				return scalar(ex.fnRef(o.FullName()), o.Type())
			}
		}
	}
	env.fail("unknown identifier %q", name)
	return nil
}

func (env *SpecEnv) field(x *Val, name string, e Expr) *Val {
	ex := env.ex
	if x.Tup != nil || x.Typ == nil {
		env.fail("field %s of non-struct in %s", name, e)
	}
	t := deref(x.Typ)
	s, ok := structOf(t)
	if !ok {
		env.fail("field %s: %s is not a struct (in %s)", name, t, e)
	}
	for i := 0; i < s.NumFields(); i++ {
		if s.Field(i).Name() != name {
			continue
		}
		ft := s.Field(i).Type()
		if x.Fields != nil {
			return x.Fields[i]
		}
		if _, isS := structOf(ft); isS {
			return scalar(subRef(x.T, i), ft)
		}
		comp := env.cur.comp(fieldKey(t, i), ex.fieldSort(ft))
		return scalar(mkSelect(comp, x.T), ft)
	}
	// promoted fields through embedded structs
	for i := 0; i < s.NumFields(); i++ {
		if s.Field(i).Embedded() {
			if es, ok := structOf(deref(s.Field(i).Type())); ok {
				for j := 0; j < es.NumFields(); j++ {
					if es.Field(j).Name() == name {
						return env.field(env.field(x, s.Field(i).Name(), e), name, e)
					}
				}
			}
		}
	}
	env.fail("no field %s in %s (in %s)", name, t, e)
	return nil
}

func (env *SpecEnv) index(x, i *Val, e Expr) *Val {
	ex := env.ex
	switch x.T.Sort {
	case SString:
		return scalar(app(SInt, "str.to_code", app(SString, "str.at", x.T, i.T)), types.Typ[types.Uint8])
	case SSlice:
		sl, ok := x.Typ.Underlying().(*types.Slice)
		if !ok {
			env.fail("index of slice with unknown element type in %s", e)
		}
		_, comp := ex.elemsComp(env.cur, sl.Elem())
		return scalar(mkSelect(mkSelect(comp, sArr(x.T)), idxT(sOff(x.T), i.T)), sl.Elem())
	case SInt:
		if mt, ok := x.Typ.Underlying().(*types.Map); ok {
			has, v := ex.mapLoad(env.st, env.cur, mt, x.T, i.T)
			_ = has
			return scalar(v.T, mt.Elem())
		}
	}
	if strings.HasPrefix(string(x.T.Sort), "(Array ") {
		return scalar(mkSelect(x.T, i.T), nil)
	}
	env.fail("cannot index %s", e)
	return nil
}

func (env *SpecEnv) binary(e *EBin) *Val {
	switch e.Op {
	case "&&":
		return scalar(mkAnd(env.eval(e.X).T, env.eval(e.Y).T), specBoolT)
	case "||":
		return scalar(mkOr(env.eval(e.X).T, env.eval(e.Y).T), specBoolT)
	case "==>":
		return scalar(mkImp(env.withPol(-env.pol).eval(e.X).T, env.eval(e.Y).T), specBoolT)
	case "<==>":
		z := env.withPol(0)
		return scalar(mkEq(z.eval(e.X).T, z.eval(e.Y).T), specBoolT)
	case "in":
		env = env.withPol(0)
		k := env.eval(e.X)
		m := env.eval(e.Y)
		mt, ok := m.Typ.Underlying().(*types.Map)
		if !ok {
			env.fail("`in` needs a map: %s", e)
		}
		has, _ := env.ex.mapLoad(env.st, env.cur, mt, m.T, k.T)
		return scalar(has, specBoolT)
	}
	env = env.withPol(0)
	x, y := env.eval(e.X), env.eval(e.Y)
	switch e.Op {
	case "==", "!=":
		var t Term
		xs, ys := x.T.Sort, y.T.Sort
		switch {
		case xs == SSlice && ys == SInt: // s == nil
			t = mkEq(sArr(x.T), tZero)
		case xs == SInt && ys == SSlice:
			t = mkEq(sArr(y.T), tZero)
		case xs == SIface && ys == SInt:
			t = mkEq(iTag(x.T), tZero)
		case xs == SInt && ys == SIface:
			t = mkEq(iTag(y.T), tZero)
		case xs != ys:
			env.fail("comparison of %s and %s in %s", xs, ys, e)
		default:
			t = mkEq(x.T, y.T)
		}
		if e.Op == "!=" {
			t = mkNot(t)
		}
		return scalar(t, specBoolT)
	case "<", "<=", ">", ">=":
		if x.T.Sort != SInt || y.T.Sort != SInt {
			env.fail("ordering on non-integers in %s", e)
		}
		return scalar(app(SBool, e.Op, x.T, y.T), specBoolT)
	case "+", "-", "*":
		if x.T.Sort == SString && e.Op == "+" {
			return scalar(app(SString, "str.++", x.T, y.T), x.Typ)
		}
		if x.T.Sort != SInt || y.T.Sort != SInt {
			env.fail("arithmetic on non-integers in %s", e)
		}
		return scalar(app(SInt, e.Op, x.T, y.T), specIntT)
	case "/":
		return scalar(app(SInt, "div", x.T, y.T), specIntT)
	case "%":
		return scalar(app(SInt, "mod", x.T, y.T), specIntT)
	case "++":
		if x.T.Sort == SString {
			return scalar(app(SString, "str.++", x.T, y.T), x.Typ)
		}
		env.fail("++ needs strings in %s", e)
	}
	env.fail("unknown operator %s", e.Op)
	return nil
}

func (env *SpecEnv) typeArg(e Expr) types.Type {
	switch t := e.(type) {
	case *EType:
		return env.specType(t.T)
	case *EIdent:
		return env.specType(t.Name)
	case *EField:
		// pkg.Name
		if id, ok := t.X.(*EIdent); ok {
			return env.specType(id.Name + "." + t.Name)
		}
	case *ECall:
		// func(T1, T2): a function type without results
		if t.Fn == "func" {
			var ps []string
			for _, a := range t.Args {
				ps = append(ps, typeKey(env.typeArg(a)))
			}
			return env.specType("func(" + strings.Join(ps, ", ") + ")")
		}
	}
	env.fail("expected a type, got %s", e)
	return nil
}

// specCallEnv builds the environment in which the body of a spec function is evaluated.
func (env *SpecEnv) specCallEnv(sf *SpecFunc, e *ECall) (*SpecEnv, *SpecEnv) {
	ex := env.ex
	if len(e.Args) != len(sf.Params) {
		env.fail("spec function %s takes %d arguments", sf.Name, len(sf.Params))
	}
	if env.depth > 20 {
		env.fail("spec function recursion in %s", sf.Name)
	}
	vars := map[string]*Val{}
	sfPkg := ex.ld.typesPkg(sf.Pkg)
	tenv := &SpecEnv{ex: ex, pkg: sfPkg}
	for i, p := range sf.Params {
		v := env.withPol(0).eval(e.Args[i])
		pt := tenv.specType(p.Type)
		nv := *v
		if pt != refType {
			nv.Typ = pt
			if sortOfType(pt) != v.T.Sort && v.Fields == nil {
				env.fail("argument %d of %s: sort %s does not fit parameter type %s", i, sf.Name, v.T.Sort, p.Type)
			}
		}
		vars[p.Name] = &nv
	}
	n := &SpecEnv{ex: ex, st: env.st, vars: vars, cur: env.cur, old: env.old, pkg: sfPkg, nextOld: env.nextOld, depth: env.depth + 1, pol: env.pol, iter: env.iter, entry: env.entry}
	return n, tenv
}

// recView records which heap components a spec expression reads.
type recView struct {
	inner HeapView
	keys  *[]string
	sorts map[string]Sort
}

func (r recView) comp(key string, sort Sort) Term {
	if _, ok := r.sorts[key]; !ok {
		r.sorts[key] = sort
		*r.keys = append(*r.keys, key)
	}
	return r.inner.comp(key, sort)
}

// opaqueApp: an opaque spec function is an uninterpreted predicate of its arguments and of the heap
// components its body reads; its definition is visible only in functions that `reveal` it.
func (env *SpecEnv) opaqueApp(sf *SpecFunc, callee *SpecEnv) *Val {
	ex := env.ex
	rs, ok := ex.opaqueReads[sf.Name]
	if !ok {
		var keys, oldKeys []string
		sorts := map[string]Sort{}
		oldSorts := map[string]Sort{}
		probe := *callee
		probe.pol = 0 // the body is only scanned for the components it reads: no witness substitution
		probe.cur = recView{callee.cur, &keys, sorts}
		probe.old = recView{callee.old, &oldKeys, oldSorts}
		saved := ex.revealAll
		ex.revealAll = true
		probe.eval(sf.Body)
		ex.revealAll = saved
		sort.Strings(keys)
		sort.Strings(oldKeys)
		rs = &opaqueRead{keys, sorts, oldKeys, oldSorts}
		ex.opaqueReads[sf.Name] = rs
	}
	var sorts []Sort
	var ts []string
	for _, p := range sf.Params {
		v := callee.vars[p.Name]
		sorts = append(sorts, v.T.Sort)
		ts = append(ts, v.T.S)
	}
	for _, k := range rs.keys {
		c := env.cur.comp(k, rs.sorts[k])
		sorts = append(sorts, c.Sort)
		ts = append(ts, c.S)
	}
	for _, k := range rs.oldKeys {
		c := env.old.comp(k, rs.oldSorts[k])
		sorts = append(sorts, c.Sort)
		ts = append(ts, c.S)
	}
	f := ex.uninterp("opaque."+sf.Name, sorts, SBool)
	return scalar(Term{fmt.Sprintf("(%s %s)", f, strings.Join(ts, " ")), SBool}, specBoolT)
}

type opaqueRead struct {
	keys     []string
	sorts    map[string]Sort
	oldKeys  []string
	oldSorts map[string]Sort
}

type namedTerm struct {
	name string
	t    Term
	src  string
}

// conjuncts splits a boolean spec expression into its top-level conjuncts, looking through
// spec functions, so that each becomes its own (named) obligation.
func (env *SpecEnv) conjuncts(e Expr, prefix string) []namedTerm {
	switch x := e.(type) {
	case *EBin:
		if x.Op == "&&" {
			l := env.conjuncts(x.X, prefix)
			r := env.conjuncts(x.Y, prefix)
			return append(l, r...)
		}
		if x.Op == "==>" {
			// A ==> (B && C)  splits into  A ==> B, A ==> C
			rs := env.conjuncts(x.Y, prefix)
			if len(rs) > 1 {
				a := env.withPol(-env.pol).eval(x.X)
				var out []namedTerm
				for _, r := range rs {
					out = append(out, namedTerm{r.name, mkImp(a.T, r.t), x.X.String() + " ==> " + r.src})
				}
				return out
			}
		}
	case *ECall:
		if sf, ok := env.ex.ct.Specs[x.Fn]; ok && !(sf.Opaque && !(env.ex.top != nil && env.ex.top.Reveals[sf.Name]) && !env.ex.revealAll) {
			if b, isBin := sf.Body.(*EBin); isBin && b.Op == "&&" {
				n, _ := env.specCallEnv(sf, x)
				return n.conjuncts(sf.Body, prefix+x.Fn+".")
			}
		}
	case *EOld:
		n := *env
		n.cur = env.old
		return n.conjuncts(x.X, prefix)
	}
	v := env.eval(e)
	if v.T.Sort != SBool {
		env.fail("%s is not boolean", e)
	}
	return []namedTerm{{prefix, v.T, e.String()}}
}

func (env *SpecEnv) call(e *ECall) *Val {
	ex := env.ex
	// ghost maps
	if g, ok := ex.ct.Ghosts[e.Fn]; ok {
		if len(e.Args) != len(g.KeySort) {
			env.fail("ghost %s takes %d keys", g.Name, len(g.KeySort))
		}
		t := env.cur.comp("G:"+g.Name, ex.ghostSort(g, env.pkg))
		for _, a := range e.Args {
			t = mkSelect(t, ex.asKey(env.eval(a)))
		}
		return scalar(t, env.specType(g.ValType))
	}
	// spec functions (macro expansion)
	if sf, ok := ex.ct.Specs[e.Fn]; ok {
		n, tenv := env.specCallEnv(sf, e)
		if sf.Opaque && !(ex.top != nil && ex.top.Reveals[sf.Name]) && !ex.revealAll {
			return env.opaqueApp(sf, n)
		}
		r := n.eval(sf.Body)
		if sf.Ret != "" {
			nv := *r
			nv.Typ = tenv.specType(sf.Ret)
			return &nv
		}
		return r
	}
	if sf, ok := ex.ct.Specs[e.Fn]; ok && false {
		if len(e.Args) != len(sf.Params) {
			env.fail("spec function %s takes %d arguments", sf.Name, len(sf.Params))
		}
		if env.depth > 20 {
			env.fail("spec function recursion in %s", sf.Name)
		}
		vars := map[string]*Val{}
		sfPkg := ex.ld.typesPkg(sf.Pkg)
		tenv := &SpecEnv{ex: ex, pkg: sfPkg}
		for i, p := range sf.Params {
			v := env.eval(e.Args[i])
			pt := tenv.specType(p.Type)
			nv := *v
			// keep the argument's own type when the parameter is a bare ref / any
			if pt != refType {
				nv.Typ = pt
				// interface value passed where a pointer is expected etc. is a spec error
				if sortOfType(pt) != v.T.Sort && v.Fields == nil {
					env.fail("argument %d of %s: sort %s does not fit parameter type %s", i, sf.Name, v.T.Sort, p.Type)
				}
			}
			vars[p.Name] = &nv
		}
		n := &SpecEnv{ex: ex, st: env.st, vars: vars, cur: env.cur, old: env.old, pkg: sfPkg, nextOld: env.nextOld, depth: env.depth + 1}
		r := n.eval(sf.Body)
		if sf.Ret != "" {
			nv := *r
			nv.Typ = tenv.specType(sf.Ret)
			return &nv
		}
		return r
	}
	arg := func(i int) *Val {
		if i >= len(e.Args) {
			env.fail("%s: missing argument %d", e.Fn, i)
		}
		return env.eval(e.Args[i])
	}
	switch e.Fn {
	case "iterkey":
		// iterkey(q): the key delivered at position q by the map iteration of this function
		if env.iter == nil {
			env.fail("iterkey outside a loop over a map")
		}
		k := mkSelect(env.iter.Inv, arg(0).T)
		if sortOfType(env.iter.MTyp.Key()) == SString {
			return scalar(Term{"(ks " + k.S + ")", SString}, env.iter.MTyp.Key())
		}
		return scalar(k, env.iter.MTyp.Key())
	case "iterord":
		// iterord(k): the position at which key k is delivered
		if env.iter == nil {
			env.fail("iterord outside a loop over a map")
		}
		return scalar(mkSelect(env.iter.Ord, mapKeyTerm(arg(0).T)), specIntT)
	case "iterdom":
		// iterdom(k): k was in the map when the iteration started
		if env.iter == nil {
			env.fail("iterdom outside a loop over a map")
		}
		return scalar(mkSelect(env.iter.Dom, mapKeyTerm(arg(0).T)), specBoolT)
	case "panicval":
		// the value of the most recent panic on this path (after recover() it is the recovered value)
		if env.st == nil || env.st.panicVal.S == "" {
			return scalar(nilIface, types.NewInterfaceType(nil, nil))
		}
		return scalar(env.st.panicVal, types.NewInterfaceType(nil, nil))
	case "entry":
		// entry(e): value of e when the function under contract was entered
		n := *env
		n.cur = entryView{env.st}
		if env.entry != nil {
			n.cur = env.entry
		}
		return n.eval(e.Args[0])
	case "len":
		x := arg(0)
		switch x.T.Sort {
		case SString:
			return scalar(app(SInt, "str.len", x.T), specIntT)
		case SSlice:
			return scalar(sLen(x.T), specIntT)
		case SInt:
			if mt, ok := x.Typ.Underlying().(*types.Map); ok {
				return scalar(ex.mapLen(env.st, env.cur, mt, x.T), specIntT)
			}
		}
		env.fail("len of %s", e.Args[0])
	case "cap":
		return scalar(sCap(arg(0).T), specIntT)
	case "arr":
		return scalar(sArr(arg(0).T), refType)
	case "off":
		return scalar(sOff(arg(0).T), specIntT)
	case "fresh":
		x := arg(0)
		return scalar(app(SBool, ">=", ex.asKey(x), env.nextOld), specBoolT)
	case "tagof":
		return scalar(iTag(arg(0).T), specIntT)
	case "refof":
		return scalar(ex.asKey(arg(0)), refType)
	case "hastype":
		x := arg(0)
		t := env.typeArg(e.Args[1])
		return scalar(mkEq(iTag(x.T), ex.tagOf(t)), specBoolT)
	case "implements":
		x := arg(0)
		t := env.typeArg(e.Args[1])
		p := ex.implPred(t)
		return scalar(mkAnd(mkNot(mkEq(iTag(x.T), tZero)), Term{fmt.Sprintf("(%s %s)", p, iTag(x.T).S), SBool}), specBoolT)
	case "cast":
		x := arg(0)
		t := env.typeArg(e.Args[1])
		if x.T.Sort == SIface {
			if _, isI := t.Underlying().(*types.Interface); isI {
				nv := *x
				nv.Typ = t
				return &nv
			}
			if isPointerLike(t) {
				return scalar(iVal(x.T), t)
			}
			so := sortOfType(t)
			if so == SAgg {
				return scalar(iVal(x.T), t) // boxed struct: reference to the copy
			}
			_, u := ex.boxFn(so)
			return scalar(Term{fmt.Sprintf("(%s %s)", u, iVal(x.T).S), so}, t)
		}
		nv := *x
		nv.Typ = t
		return &nv
	case "iface":
		// iface(x, T): the interface value holding x with dynamic type T
		x := arg(0)
		t := env.typeArg(e.Args[1])
		if isPointerLike(t) || x.T.Sort == SInt && sortOfType(t) == SAgg {
			return scalar(mkIfaceT(ex.tagOf(t), x.T), types.NewInterfaceType(nil, nil))
		}
		b, _ := ex.boxFn(x.T.Sort)
		return scalar(mkIfaceT(ex.tagOf(t), Term{fmt.Sprintf("(%s %s)", b, x.T.S), SInt}), types.NewInterfaceType(nil, nil))
	case "substr":
		return scalar(app(SString, "str.substr", arg(0).T, arg(1).T, arg(2).T), specStrT)
	case "indexof":
		from := tZero
		if len(e.Args) > 2 {
			from = arg(2).T
		}
		return scalar(app(SInt, "str.indexof", arg(0).T, arg(1).T, from), specIntT)
	case "contains":
		return scalar(app(SBool, "str.contains", arg(0).T, arg(1).T), specBoolT)
	case "prefixof":
		return scalar(app(SBool, "str.prefixof", arg(0).T, arg(1).T), specBoolT)
	case "suffixof":
		return scalar(app(SBool, "str.suffixof", arg(0).T, arg(1).T), specBoolT)
	case "at":
		return scalar(app(SInt, "str.to_code", app(SString, "str.at", arg(0).T, arg(1).T)), specIntT)
	case "chr":
		if n, ok := literalInt(arg(0).T); ok && n >= 0 && n < 256 {
			return scalar(strLit(string([]byte{byte(n)})), specStrT)
		}
		return scalar(app(SString, "str.from_code", arg(0).T), specStrT)
	case "replaceall":
		return scalar(app(SString, "str.replace_all", arg(0).T, arg(1).T, arg(2).T), specStrT)
	case "bytes":
		return scalar(ex.bytesOf(env.st, env.cur, arg(0).T), specStrT)
	case "allspace":
		// every byte is ASCII white space or >= 0x80 (part of a multi-byte white-space rune)
		return scalar(Term{"(str.in_re " + arg(0).T.S + " (re.* (re.union (str.to_re \" \") (re.range \"\\u{9}\" \"\\u{d}\") (re.range \"\\u{80}\" \"\\u{ff}\"))))", SBool}, specBoolT)
	case "isspace":
		// ASCII white space byte
		b := arg(0).T
		return scalar(mkOr(mkEq(b, intLit(32)), mkAnd(app(SBool, "<=", intLit(9), b), app(SBool, "<=", b, intLit(13)))), specBoolT)
	case "allof":
		// allof(t, c): t consists only of repetitions of the one-character string c
		return scalar(Term{"(str.in_re " + arg(0).T.S + " (re.* (str.to_re " + arg(1).T.S + ")))", SBool}, specBoolT)
	case "join":
		// join(elems, sep, n) for a literal n: elems[0] ++ sep ++ ... ++ elems[n-1]
		xs := arg(0)
		sep := arg(1)
		nlit, ok := e.Args[2].(*EInt)
		if !ok {
			env.fail("join needs a literal count")
		}
		var n int
		fmt.Sscanf(nlit.V, "%d", &n)
		if n == 0 {
			return scalar(strLit(""), specStrT)
		}
		var parts []Term
		for i := 0; i < n; i++ {
			if i > 0 {
				parts = append(parts, sep.T)
			}
			parts = append(parts, env.index(xs, scalar(intLit(int64(i)), specIntT), e).T)
		}
		if len(parts) == 1 {
			return scalar(parts[0], specStrT)
		}
		acc := parts[0]
		for _, pt := range parts[1:] {
			acc = app(SString, "str.++", acc, pt)
		}
		return scalar(acc, specStrT)
	case "int8":
		return scalar(wrapInt(types.Typ[types.Int8], arg(0).T), types.Typ[types.Int8])
	case "min":
		a, b := arg(0), arg(1)
		return scalar(mkIte(app(SBool, "<=", a.T, b.T), a.T, b.T), specIntT)
	case "max":
		a, b := arg(0), arg(1)
		return scalar(mkIte(app(SBool, ">=", a.T, b.T), a.T, b.T), specIntT)
	case "sub":
		// sub(x, field): reference of an embedded struct value
		x := arg(0)
		if f, ok := e.Args[1].(*EIdent); ok {
			return env.field(x, f.Name, e)
		}
	case "uf":
		// uf("name", retType, args...): uninterpreted function application
		nm, ok := e.Args[0].(*EStr)
		if !ok {
			env.fail("uf needs a name string")
		}
		rt := env.typeArg(e.Args[1])
		var sorts []Sort
		var ts []string
		for _, a := range e.Args[2:] {
			v := env.eval(a)
			sorts = append(sorts, v.T.Sort)
			ts = append(ts, v.T.S)
		}
		f := ex.uninterp(nm.V, sorts, sortOfType(rt))
		if len(ts) == 0 {
			return scalar(Term{f, sortOfType(rt)}, rt)
		}
		return scalar(Term{fmt.Sprintf("(%s %s)", f, strings.Join(ts, " ")), sortOfType(rt)}, rt)
	case "fn":
		// fn("pkg.Name"): the function value of a declared function
		nm, ok := e.Args[0].(*EStr)
		if !ok {
			env.fail("fn needs a name string")
		}
		return scalar(ex.fnRef(qualifyFuncKey(nm.V, env.pkg.Path())), refType)
	case "dom":
		m := arg(0)
		mt, ok := m.Typ.Underlying().(*types.Map)
		if !ok {
			env.fail("dom needs a map")
		}
		dk, _, _ := mapKeys(mt)
		return scalar(mkSelect(env.cur.comp(dk, arraySort(SInt, arraySort(mapKeySort(mt), SBool))), m.T), nil)
	case "cell":
		// cell([]T, a, j): element j of the backing array a of element type T
		t := env.typeArg(e.Args[0])
		sl, ok := t.Underlying().(*types.Slice)
		if !ok {
			env.fail("cell needs a slice type")
		}
		_, comp := ex.elemsComp(env.cur, sl.Elem())
		return scalar(mkSelect(mkSelect(comp, arg(1).T), arg(2).T), sl.Elem())
	case "elemsrow":
		s := arg(0)
		sl := s.Typ.Underlying().(*types.Slice)
		_, comp := ex.elemsComp(env.cur, sl.Elem())
		return scalar(mkSelect(comp, sArr(s.T)), nil)
	case "allocated":
		// allocated(x): x existed when the function was entered / the call was made
		x := arg(0)
		return scalar(app(SBool, "<", ex.asKey(x), env.nextOld), specBoolT)
	}
	env.fail("unknown function %s", e.Fn)
	return nil
}

// autoPatterns chooses E-matching triggers for a quantifier: for every bound variable the smallest
// enclosing array reads / uninterpreted applications that mention it (never bare arithmetic, which
// makes solvers loop). Alternatives are emitted as separate :pattern annotations when one term covers
// all variables; otherwise a single multi-pattern is built from one term per variable.
func autoPatterns(body string, vars []string) string {
	perVar := make([][]string, len(vars))
	for vi, v := range vars {
		seen := map[string]bool{}
		idx := 0
		for {
			k := strings.Index(body[idx:], v)
			if k < 0 {
				break
			}
			pos := idx + k
			idx = pos + len(v)
			if t := enclosingTrigger(body, pos, pos+len(v)); t != "" && !seen[t] {
				// a trigger must not contain a nested quantifier
				if strings.Contains(t, "(forall ") || strings.Contains(t, "(exists ") {
					continue
				}
				seen[t] = true
				perVar[vi] = append(perVar[vi], t)
			}
		}
		if len(perVar[vi]) == 0 {
			return ""
		}
	}
	containsAll := func(t string) bool {
		for _, v := range vars {
			if !strings.Contains(t, v) {
				return false
			}
		}
		return true
	}
	var out []string
	used := map[string]bool{}
	for _, ts := range perVar {
		for _, t := range ts {
			if containsAll(t) && !used[t] {
				used[t] = true
				out = append(out, " :pattern ("+t+")")
			}
		}
	}
	if len(out) > 0 {
		if len(out) > 4 {
			out = out[:4]
		}
		return strings.Join(out, "")
	}
	// multi-pattern: first candidate of each variable
	var parts []string
	for _, ts := range perVar {
		parts = append(parts, ts[0])
	}
	return " :pattern (" + strings.Join(parts, " ") + ")"
}

// enclosingTrigger: the smallest s-expression around [lo,hi) that is an array read or an uninterpreted
// function application.
func enclosingTrigger(body string, lo, hi int) string {
	// walk outwards over enclosing parentheses
	depth := 0
	for i := lo - 1; i >= 0; i-- {
		switch body[i] {
		case ')':
			depth++
		case '(':
			if depth > 0 {
				depth--
				continue
			}
			// find the matching close
			d := 0
			end := -1
			inBar := false
			for j := i; j < len(body); j++ {
				c := body[j]
				if c == '|' {
					inBar = !inBar
				}
				if inBar {
					continue
				}
				if c == '(' {
					d++
				} else if c == ')' {
					d--
					if d == 0 {
						end = j
						break
					}
				}
			}
			if end < 0 {
				return ""
			}
			expr := body[i : end+1]
			if strings.HasPrefix(expr, "(select ") || strings.HasPrefix(expr, "(|uf:") || strings.HasPrefix(expr, "(sk ") {
				if strings.HasPrefix(expr, "(sk ") {
					// prefer the read that uses the interned key
					continue
				}
				return expr
			}
		}
	}
	return ""
}

// dollarKind: the $-name stem of an instruction (see dollarValue), "" if it has none.
func dollarKind(in ssa.Instruction) string {
	switch x := in.(type) {
	case *ssa.MakeMap:
		return "makemap"
	case *ssa.MakeSlice:
		return "makeslice"
	case *ssa.Lookup:
		return "lookup"
	case *ssa.Call:
		if cal := x.Common().StaticCallee(); cal != nil {
			return "call_" + cal.Name() + "_"
		} else if x.Common().IsInvoke() {
			return "call_" + x.Common().Method.Name() + "_"
		}
	}
	return ""
}
